#!/venv/bin/python
"""Re-validate every seeded change against the current /repo HEAD and the current checks.

For each seeded/<ID>-<X>/: scratch worktree of /repo HEAD, demo on the clean tree (must exit 0), apply the patch
(3-way; the refreshed patch relative to HEAD is written back), suite, demo (must exit 1), then the quick check of every
property listed in meta.json['caught_by'].  Writes seeded/RESULTS.md."""
import sys, os, json, subprocess, tempfile, shutil, glob, time
HERE = os.path.dirname(os.path.dirname(os.path.abspath(__file__)))
append = '--append' in sys.argv
only = [a for a in sys.argv[1:] if a != '--append']
rows = []
for d in sorted(glob.glob(os.path.join(HERE, 'seeded', '*-*'))):
    name = os.path.basename(d)
    if only and name not in only and name.split('-')[0] not in only:
        continue
    meta = json.load(open(os.path.join(d, 'meta.json')))
    tmp = tempfile.mkdtemp(prefix='ppgm-seed-')
    r = tmp + '/r'
    res = {'seed': name}
    try:
        subprocess.check_call(['git', '-C', '/repo', 'worktree', 'add', '--detach', '-f', r, 'HEAD'], stdout=subprocess.DEVNULL, stderr=subprocess.DEVNULL)
        env = dict(os.environ, PPGM_REPO=r, PYTHONPATH=r + '/src', PYTHONHASHSEED='0')
        c = subprocess.run(['/venv/bin/python', os.path.join(d, 'demo.py')], env=env, cwd=r, capture_output=True, text=True)
        res['demo_clean'] = c.returncode
        a = subprocess.run(['git', '-C', r, 'apply', '--3way', os.path.join(d, 'patch.diff')], capture_output=True, text=True)
        if a.returncode != 0:
            res['apply'] = 'FAILED'; rows.append(res); continue
        res['apply'] = 'ok'
        subprocess.run(['git', '-C', r, 'reset', '-q'], check=False)
        diff = subprocess.run(['git', '-C', r, 'diff'], capture_output=True).stdout      # bytes: some sources use CRLF
        if diff.strip():
            open(os.path.join(d, 'patch.diff'), 'wb').write(diff)
        t = subprocess.run(['/venv/bin/python', '-m', 'pytest', '-q', '-p', 'no:cacheprovider', '--timeout=900', 'test'], cwd=r, env=env, capture_output=True, text=True)
        res['suite'] = (t.stdout.strip().splitlines() or ['?'])[-1]
        c = subprocess.run(['/venv/bin/python', os.path.join(d, 'demo.py')], env=env, cwd=r, capture_output=True, text=True)
        res['demo_patched'] = c.returncode
        res['checks'] = {}
        for i in meta.get('caught_by', []):
            t0 = time.time()
            k = subprocess.run([os.path.join(HERE, 'run_check.py'), i, '--tier', 'quick'], env=dict(os.environ, PPGM_REPO=r), cwd=HERE, capture_output=True, text=True)
            kinds = sorted(set(l.split('failure bucket ')[1].split('|')[0] for l in k.stdout.splitlines() if 'failure bucket' in l))
            res['checks'][i] = {'rc': k.returncode, 'wall_s': round(time.time() - t0), 'buckets': kinds[:4]}
    finally:
        subprocess.call(['git', '-C', '/repo', 'worktree', 'remove', '--force', r], stdout=subprocess.DEVNULL, stderr=subprocess.DEVNULL)
        shutil.rmtree(tmp, ignore_errors=True)
    rows.append(res)
    print(json.dumps(res), flush=True)
subprocess.call(['git', '-C', '/repo', 'worktree', 'prune'])
if not only or append:
    head = subprocess.check_output(['git', '-C', '/repo', 'log', '--oneline', '-1']).decode().strip()
    with open(os.path.join(HERE, 'seeded', 'RESULTS.md'), 'a' if append else 'w') as f:
        if not append:
            f.write('# Seeded changes re-validated against /repo HEAD `%s`\n\n' % head)
            f.write('Produced by `tools/run_seeded.py` (scratch worktree per change, removed afterwards). rc=1 means the check reported a VIOLATION.\n\n')
            f.write('| seed | demo clean/patched | suite with patch | checks (rc, wall, failure kinds) |\n|---|---|---|---|\n')
        for r_ in rows:
            ch = '; '.join('%s rc=%s %ss %s' % (i, v['rc'], v['wall_s'], ','.join(v['buckets'])) for i, v in r_.get('checks', {}).items())
            f.write('| %s | %s/%s | %s | %s |\n' % (r_['seed'], r_.get('demo_clean'), r_.get('demo_patched'), r_.get('suite', r_.get('apply')), ch))
