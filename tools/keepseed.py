#!/venv/bin/python
"""keepseed.py <ID> <A|B> <caught_by comma list or 'none'> "<what I ran / result>"  : copy a confirmed seeded change into /verif/seeded/"""
import sys, os, shutil, json
i, x, caught, ran = sys.argv[1:5]
src = {'A': '/tmp/seed', 'B': '/tmp/seed', 'C': '/tmp/seed2', 'D': '/tmp/seed2', 'E': '/tmp/seed3', 'F': '/tmp/seed3', 'G': '/tmp/seed4', 'H': '/tmp/seed4', 'I': '/tmp/seed5', 'J': '/tmp/seed5'}[x] + '/%s/seed_out/%s' % (i, x)
dst = '/verif/seeded/%s-%s' % (i, x)
os.makedirs(dst, exist_ok=True)
for f in ('patch.diff', 'demo.py', 'notes.md'):
    shutil.copy(os.path.join(src, f), os.path.join(dst, f))
notes = open(os.path.join(src, 'notes.md')).read()
meta = {'property': i, 'breaks': i, 'variant': x, 'needs_to_manifest': notes.strip()[:1500],
        'confirmed': 'demo exits 0 on clean worktree and 1 with the patch; baseline suite 32 passed/12 skipped with the patch (tools/mut.py --patch --demo in a scratch worktree)',
        'caught_by': [] if caught == 'none' else caught.split(','), 'ran': ran}
json.dump(meta, open(os.path.join(dst, 'meta.json'), 'w'), indent=1)
print('kept', dst)
