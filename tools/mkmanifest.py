#!/venv/bin/python
"""Regenerates /verif/MANIFEST.json from the table below (kept in one place so it stays valid)."""
import json, os, sys
HERE = os.path.dirname(os.path.dirname(os.path.abspath(__file__)))
sys.path.insert(0, HERE)
TITLES = {}
for l in open(os.path.join(HERE, 'properties.jsonl')):
    d = json.loads(l); TITLES[d['id']] = d['title']

# id -> (technique, level text, level note)
CHECKS = {
 'C01': ('Hypothesis-generated models vs brute-force joint oracle; metamorphic relations (elimination order, constant shift, message schedule)',
         'Generated-input search: thousands of random structures/potentials/totals/orders/schedules per run, every clique marginal compared with an independent brute-force joint, again after a later call and after an in-place update of the same parameter object. Finds counterexamples, does not prove absence.',
         'Trusts numpy and the brute-force oracle in pbt/oracles.py; joint size capped at 4096 (quick) / 20000 (thorough) cells.'),
 'C12': ('exhaustive enumeration (all labelled graphs on <=5 attributes x all elimination orders) + Hypothesis-generated larger clique sets, judged by a junction-tree validity predicate',
         'The n<=5 sub-space is enumerated completely on every quick run (exhaustive for that sub-space: ~130k trees); larger clique sets, order modes None/int and size-1 attributes are sampled with Hypothesis. One generated case in twelve has 40-80 attributes. Thorough adds 3-clique masks and all labelled 6-node graphs x 720 orders under a time cap.',
         'Trusts the validity predicate in pbt/c12.py (pure-Python sets) and networkx only as used by the code under test.'),
 'C14': ('Hypothesis-generated factor pairs and one of ~45 operations vs a naive per-assignment reference (itertools.product)',
         'Generated-input search over operand attribute orders/overlaps/sizes (incl. size 1), -inf patterns and all listed operations incl. in-place/out= variants and CliqueVector arithmetic; result compared cell by cell by attribute name.',
         'Trusts the naive reference in pbt/c14.py; inputs stay inside the preconditions every caller meets (sub-domain right operands for / += *=, positive divisors or 0/0).'),
 'C15': ('Hypothesis-generated datasets/projections vs Counter-based contingency table; Domain methods vs an ordered-dict model',
         'Generated-input search over domains, record sets (empty, duplicates, boundary), weights, shuffled/extra columns, projection orders and spellings; every Domain method compared with a plain model.',
         'Trusts pandas/numpy and the Counter-based reference in pbt/c15.py.'),
 'C02': ('Hypothesis RuleBasedStateMachine over query/cache/save-load histories on one model vs brute-force joint oracle',
         'Stateful generated search: thousands of histories of project/bulk/krondot/datavector/cache/uncache/save-load/synthetic_data/scribble steps; after every step the answer is compared with the explicit joint in the requested axis order and with the first answer to the same question.',
         'Trusts the brute-force joint; krondot compared only while exp(potentials) stays in float range; calculate_many_marginals is given tuples (its dict-keyed interface).'),
 'C04': ('Hypothesis-generated measurement sets: loss vs oracle objective, gradient vs central difference, metamorphic spelling equivalence, Lipschitz constant vs eigenvalue of the Hessian assembled from the gradient map',
         'Generated-input search over measurement sets (duplicates, nested, hub-shaped overlaps), noise scales, query spellings, metrics and directions; four executable oracles per case.',
         'Observation points _setup/_marginal_loss/_lipschitz are the ones named in the property; projections over a single cell are excluded from the Lipschitz clause (eigsh k=1 needs >=2 cells).'),
 'C09': ('Hypothesis-generated measurement sets from query families with known row-space membership vs dense pinv reference (differential), all four copies of the estimator',
         'Generated-input search over query families/sizes 1-64/spellings/noise scales, engines used before with another total, caller-built marginal-oracle objects; model.total compared with an independent inverse-variance reference, noise-free clause total==N, given totals honoured exactly.',
         'mixture_inference.estimate_total is AST-extracted (jax absent); singular values of generated dense queries kept in [0.5,5] so row-space membership is unambiguous.'),
 'C08': ('Hypothesis-generated estimation problems (3 solvers, iteration counts incl. 1, early exits, structural zeros) vs brute-force joint of the returned parameters; all-subsets query sweep',
         'Generated-input search: the returned model is queried on every attribute subset (drawn orders) and each answer, the stored marginals and the data vector are compared with the joint of the stored potentials; finite / non-negative / sums-to-total asserted explicitly.',
         'One-cell projections and all-zero queries are not given to RDA/IG (ARPACK preconditions). F14 (MD step doubling; two signatures) and F21-C08 (MD at totals ~1e-8) are listed known findings recognised by their root-cause signatures. Tolerances are 1e-6 + 1e-14 x the largest parameter magnitude (stored, or handed to belief propagation during an RDA/IG run, up to 1e14): float64 resolution of log-probabilities.'),
 'C03': ('Hypothesis-generated estimation problems vs an independent simplex-QP solver with a Frank-Wolfe duality-gap certificate (differential, certified bounds)',
         'Generated-input search over measurement sets and solvers; the loss recomputed from model.project answers must lie between the certified minimum and the uniform start, and reach the optimum under iteration escalation (plateau rule; still-decreasing runs are inconclusive, never violations).',
         'Trusts the oracle solver only through its certificate (cases whose gap is not < 1e-9 are inconclusive). F14 instances (single-cell projections under MD) are a listed known finding.'),
 'C10': ('Hypothesis-generated zero sets, measurement histories (warm start on/off, solver per call) vs a dead-cell predicate derived from the declared zeros; all-subsets query sweep + synthetic data',
         'Generated-input search: after the last call of a 1-3 call history every project() answer on every attribute subset, the data vector and synthetic records (round/sample) are checked against the set of cells that the declared zeros make impossible; finite/non-negative/sums-to-total asserted.',
         'Threshold 1e-60*total instead of exact 0 (Factor.log adds 1e-100 by design). F14 instances are a listed known finding (signature tracked over the whole call history).'),
 'C13': ('Hypothesis RuleBasedStateMachine over sequences of estimate calls on one estimator: differential against a fresh estimator, snapshot comparison of earlier models, deep-copy comparison of caller inputs, certified-optimum check for warm start',
         'Stateful generated search: hundreds of call histories (varying measurement sets, totals, solvers, callbacks) per run; history-freeness is decided by exact comparison with a fresh estimator on every attribute subset, immutability by bit-identical snapshots, warm-start convergence by the C03 certificate.',
         'Fresh-vs-history tolerance 1e-9*total (runs are bit-identical on the pinned tree). Warm-start optimum clause runs on 1/6 of the warm histories, skipped when structural zeros are present (covered by C10).'),
 'C07': ('dense log-grid enumeration + Hypothesis random points; differential against an independent minimiser of the CKS20 bound and the exact Gaussian delta (Balle-Wang); metamorphic monotonicity and inverse relations',
         'Every grid point (61x61 for cdp_delta, 16x16 for cdp_rho and cdp_eps; 161/41 thorough) is checked on every run for soundness, tightness, monotonicity against its neighbours and the inverse relations; random points and factor-shifted pairs are added by Hypothesis.',
         'Trusts the reference optimiser (grid over alpha-1 in [1e-12,1e9] + golden section) and scipy log_ndtr. F13 (alpha floor 1.01) is a listed known finding; clamped results (eps=0) are checked to be the clamp value.'),
 'C20': ('Hypothesis-generated quality vectors / parameters per primitive; numpy.random interposer captures the p= vector and the scale/size arguments; differential against a long-double softmax reference; metamorphic constant shift; call sequences on one Mechanism object',
         'Generated-input search over all selection primitives in mechanism.py, mst.py, adaptive_grid.py, mwem+pgm.py and the noise helpers/samplers; probabilities compared in log space with a magnitude-aware tolerance.',
         'autodp calibrator replaced by a recording test double; eps=inf only with sensitivity 1 (the only way callers use it); permute_and_flip and the generalized mechanism score transform are outside the statement.'),
 'C11': ('Hypothesis-generated models / row counts / methods / numpy seeds vs brute-force joint; rows-independent rounding bound derived along the generation order; Hoeffding bound for sampling; two generations per model object',
         'Generated-input search: validity predicate on the data frame (rows, columns, ranges, no record in a zero-probability cell of any clique or the joint), rounding-mode count error within a rigorous bound that does not grow with rows (checked at two row counts two decades apart), sampling mode within a 1e-12 union bound.',
         'Trusts the brute-force joint and the bound derivation in DESIGN.md (C11); numpy global RNG seeded from the case.'),
 'C16': ('Hypothesis-generated clique sets: validity predicate (finite, >=0, sums to total) on arbitrary structures incl. warm second calls; differential against the brute-force joint on constructed junction-tree-structured clique sets (GBP) and tree factor graphs (LBP)',
         'Generated-input search over structures (loops, nested separators up to four region levels, forests, unary factors), potentials (incl. -inf structural zeros as LocalInference folds them in), totals (incl. re-assigned on the object) and sweep counts.',
         'Exactness clause uses lexicographically ordered distinct cliques with potentials on the maximal cliques (the premise of the statement); FactorGraph.project is only queried on covered attributes.'),
 'C17': ('Hypothesis-generated region structures / potentials / damping vs an independent dual solver (L-BFGS+BFGS) of the convexified free energy on an independently built region closure; metamorphic re-listing of cliques for non-converging runs',
         'Generated-input search; conditional on the convergence the statement presupposes (primal feasibility <= 1e-9*total within 5000 sweeps, ~99% of cases on the current tree; a run that is stationary but inconsistent, or that converges only when its cliques are re-listed alphabetically, is a violation; the rest is inconclusive).',
         'Trusts the dual solver only when its gradient norm is < 1e-8 (otherwise inconclusive). Potentials are finite (a constant shift of one region up to 1e4 included); -inf potentials reach this oracle only through C18 (see F25).'),
 'C19': ('Hypothesis-generated public datasets / measurement sets / totals vs validity predicate on the weights, C09 reference total, and loss recomputed from weighted contingency tables (metamorphic: never worse than uniform weights)',
         'Generated-input search; fresh PublicInference objects are compared with uniform weights, engines used before (other answers / answers that collapse most weights) with their starting point, which is what the line search guarantees; includes degenerate shapes (single-cell projections, exact-fit starts, conflicting answers, a clique measured twice with different noise) that drive the line search to its corner cases.',
         'Loss comparison tolerance 1e-9 relative + 1e-9 x loss of the all-zero table; estimated totals compared with the pinv reference at 1e-6.'),
 'C18': ('Hypothesis-generated measurement sets x marginal oracle x iteration counts: crash-freedom and validity predicate on the measured clique tables, loss vs uniform start, feasibility of the convex oracle; differential against the certified simplex-QP optimum on disjoint clique families',
         'Generated-input search; every exception raised by the estimator is a violation (inputs stay inside the documented interface: explicit Q, tuple projections); exactness clause with iteration escalation and plateau rule.',
         'pairwise-convex oracle needs cvxopt (not installed) and is outside the listed quantifier. With structural zeros declared the uniform-start clause is not applied (completion, validity, feasibility only); F23 (2-cycle) and F25 (convex oracle stationary and inconsistent under structural zeros) are listed known findings.'),
 'C05': ('Hypothesis-generated (mechanism, dataset, neighbour, parameters, numpy seed); numpy.random interposer with operand capture and coupled replay on the neighbour; privacy ledger vs the harness-own zCDP conversion',
         'Generated-input search over all four shipped mechanisms: each noisy release and private selection is charged by the actual change of its operand / probability vector between D and D\' and the total is compared with an independently computed budget. Samples random outcome sequences (seeds); does not enumerate them.',
         'hdmm Identity replaced by scipy.sparse.eye; inference iterations capped at 25 inside the mechanisms; selections charged with the bounded-range bound eta^2/8. F12 (AIM with too few rounds) is a listed known finding.'),
 'C06': ('Hypothesis-generated mechanism runs; coupled replay (forced identical releases and selections) on a neighbouring dataset; event-sequence and output equality; domain conformance predicate',
         'Generated-input search: any dependence of control flow, noise scales, sampling probabilities or output on the private data other than through the recorded primitives shows up as a difference between the two coupled executions.',
         'Same test doubles as C05; numpy global RNG state is part of the case; AdaGrid thresholds are aimed at actual one-way counts in half of its cases; a quarter of the datasets carry record weights in (0,1]; Gaussian MWEM with delta=0 must refuse before drawing anything.'),
}
NOT_YET = 'check not built yet (work in progress in this session); see DESIGN.md for the planned check'

def main():
    checks = []
    for i in sorted(CHECKS):
        tech, text, note = CHECKS[i]
        checks.append({
            'property_id': i,
            'quick_cmd': './run_check.py %s --tier quick' % i,
            'thorough_cmd': './run_check.py %s --tier thorough' % i,
            'evidence_file': 'evidence/%s.json' % i,
            'replay_cmd_template': './run_check.py %s --replay {path}' % i,
            'engine': 'pbt',
            'level_claimed': {'category': 'exploration', 'text': text, 'design_ref': 'DESIGN.md section 2, %s' % i},
            'level_note': note,
            'technique': tech,
        })
    na = [{'property_id': i, 'reason': NOT_YET} for i in sorted(TITLES) if i not in CHECKS]
    m = {
        'version': 1,
        'setup_cmd': './setup.sh',
        'hooks': {'guard': 'PRIVATE_PGM_VERIF', 'enable': 'no hooks: the harness interposes on numpy.random and public attributes from outside; nothing in /repo is guarded',
                  'baseline_off_cmd': 'cd /repo && /venv/bin/python -m pytest -q -p no:cacheprovider --timeout=900 --continue-on-collection-errors test',
                  'source_commits': [], 'add_only': True},
        'engines': [{'name': 'pbt', 'path': 'pbt/', 'serves_properties': sorted(CHECKS),
                     'kind_free_text': 'Hypothesis property-based testing (16 sharded runs), exhaustive enumeration of small finite sub-spaces, independent numpy oracles'}],
        'checks': checks,
        'not_applicable': na,
        'notes': 'All checks: ./run_check.py <ID> --tier quick|thorough ; VERIF_SEED selects the Hypothesis seed. Known findings: known_findings.json.',
    }
    json.dump(m, open(os.path.join(HERE, 'MANIFEST.json'), 'w'), indent=1)
    print('wrote MANIFEST.json: %d checks, %d not_applicable' % (len(checks), len(na)))

if __name__ == '__main__':
    main()
