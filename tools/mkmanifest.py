#!/venv/bin/python
"""Regenerates /verif/MANIFEST.json from the table below (kept in one place so it stays valid)."""
import json, os, sys
HERE = os.path.dirname(os.path.dirname(os.path.abspath(__file__)))
sys.path.insert(0, HERE)
TITLES = {}
for l in open(os.path.join(HERE, 'properties.jsonl')):
    d = json.loads(l); TITLES[d['id']] = d['title']

# id -> (technique, level text, level note)
CHECKS = {
 'C01': ('Hypothesis-generated models vs brute-force joint oracle; metamorphic relations (elimination order, constant shift, message schedule)',
         'Generated-input search: thousands of random structures/potentials/totals/orders/schedules per run, every clique marginal compared with an independent brute-force joint. Finds counterexamples, does not prove absence.',
         'Trusts numpy and the brute-force oracle in pbt/oracles.py; joint size capped at 4096 (quick) / 20000 (thorough) cells.'),
}
NOT_YET = 'check not built yet (work in progress in this session); see DESIGN.md for the planned check'

def main():
    checks = []
    for i in sorted(CHECKS):
        tech, text, note = CHECKS[i]
        checks.append({
            'property_id': i,
            'quick_cmd': './run_check.py %s --tier quick' % i,
            'thorough_cmd': './run_check.py %s --tier thorough' % i,
            'evidence_file': 'evidence/%s.json' % i,
            'replay_cmd_template': './run_check.py %s --replay {path}' % i,
            'engine': 'pbt',
            'level_claimed': {'category': 'exploration', 'text': text, 'design_ref': 'DESIGN.md section 2, %s' % i},
            'level_note': note,
            'technique': tech,
        })
    na = [{'property_id': i, 'reason': NOT_YET} for i in sorted(TITLES) if i not in CHECKS]
    m = {
        'version': 1,
        'setup_cmd': './setup.sh',
        'hooks': {'guard': 'PRIVATE_PGM_VERIF', 'enable': 'no hooks: the harness interposes on numpy.random and public attributes from outside; nothing in /repo is guarded',
                  'baseline_off_cmd': 'cd /repo && /venv/bin/python -m pytest -q -p no:cacheprovider --timeout=900 --continue-on-collection-errors test',
                  'source_commits': [], 'add_only': True},
        'engines': [{'name': 'pbt', 'path': 'pbt/', 'serves_properties': sorted(CHECKS),
                     'kind_free_text': 'Hypothesis property-based testing (16 sharded runs), exhaustive enumeration of small finite sub-spaces, independent numpy oracles'}],
        'checks': checks,
        'not_applicable': na,
        'notes': 'All checks: ./run_check.py <ID> --tier quick|thorough ; VERIF_SEED selects the Hypothesis seed. Known findings: known_findings.json.',
    }
    json.dump(m, open(os.path.join(HERE, 'MANIFEST.json'), 'w'), indent=1)
    print('wrote MANIFEST.json: %d checks, %d not_applicable' % (len(checks), len(na)))

if __name__ == '__main__':
    main()
