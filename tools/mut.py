#!/venv/bin/python
"""Sensitivity helper: apply one textual mutation to a scratch copy of the repo, run the baseline
suite and the given checks against the copy, then delete the copy.

usage: mut.py <relpath> <old> <new> <ID>[,<ID>...] [--no-tests] [--patch file.diff]
"""
import sys, os, shutil, subprocess, tempfile, time
args = [a for a in sys.argv[1:] if not a.startswith('--')]
flags = [a for a in sys.argv[1:] if a.startswith('--')]
patch = None
demo = None
if '--demo' in sys.argv:
    demo = sys.argv[sys.argv.index('--demo') + 1]
    args = [a for a in args if a != demo]
if '--patch' in sys.argv:
    patch = sys.argv[sys.argv.index('--patch') + 1]
    args = [a for a in args if a != patch]
    ids = args[0].split(',')
else:
    rel, old, new, ids = args[0], args[1], args[2], args[3].split(',')
d = tempfile.mkdtemp(prefix='ppgm-mut-')
try:
    subprocess.check_call(['git', '-C', '/repo', 'worktree', 'add', '--detach', '-f', d + '/r', 'HEAD'], stdout=subprocess.DEVNULL, stderr=subprocess.DEVNULL)
    r = d + '/r'
    # carry over uncommitted working-tree state of /repo? no: mutants are relative to HEAD
    def run_demo(tag):
        c = subprocess.run(['/venv/bin/python', os.path.abspath(demo)], env=dict(os.environ, PPGM_REPO=r, PYTHONPATH=r + '/src'), capture_output=True, text=True, cwd=r)
        print('MUT: demo on %s tree rc=%d: %s' % (tag, c.returncode, (c.stdout.strip().splitlines() or [''])[-1][:200]))
    if demo:
        run_demo('clean')
    if patch:
        subprocess.check_call(['git', '-C', r, 'apply', '--3way', os.path.abspath(patch)])
    else:
        p = os.path.join(r, rel)
        s = open(p).read()
        old = old.encode().decode('unicode_escape'); new = new.encode().decode('unicode_escape')
        if s.count(old) != 1:
            print('MUT: pattern occurs %d times' % s.count(old)); sys.exit(3)
        open(p, 'w').write(s.replace(old, new))
    if demo:
        run_demo('patched')
    if '--no-tests' not in flags:
        env = dict(os.environ, PYTHONPATH=r + '/src', PYTHONHASHSEED='0')
        t = subprocess.run(['/venv/bin/python', '-m', 'pytest', '-q', '-p', 'no:cacheprovider', '--timeout=900', 'test'], cwd=r, env=env, capture_output=True, text=True)
        print('MUT: baseline suite:', t.stdout.strip().splitlines()[-1] if t.stdout.strip() else t.stderr[-300:])
    for i in ids:
        t0 = time.time()
        env = dict(os.environ, PPGM_REPO=r)
        c = subprocess.run(['/verif/run_check.py', i, '--tier', 'quick'], env=env, capture_output=True, text=True, cwd='/verif')
        lines = [l for l in c.stdout.splitlines() if l.startswith(('VIOLATION', '  failure', 'KNOWN', i))]
        print('MUT: check %s rc=%d %.0fs' % (i, c.returncode, time.time() - t0))
        for l in lines[:8]: print('   ', l[:400])
        if c.returncode == 2: print(c.stderr[-1500:])
finally:
    subprocess.call(['git', '-C', '/repo', 'worktree', 'remove', '--force', d + '/r'], stdout=subprocess.DEVNULL, stderr=subprocess.DEVNULL)
    shutil.rmtree(d, ignore_errors=True)
    subprocess.call(['git', '-C', '/repo', 'worktree', 'prune'])
