#!/bin/bash
# runall.sh <seed> [tier] : run every registered check once, print one summary line per check
cd "$(dirname "$0")/.."
S=${1:-1}; T=${2:-quick}
for i in C01 C02 C03 C04 C05 C06 C07 C08 C09 C10 C11 C12 C13 C14 C15 C16 C17 C18 C19 C20; do
  t0=$(date +%s)
  VERIF_SEED=$S ./run_check.py $i --tier $T > /tmp/runall.$i.$S.out 2>&1; rc=$?
  echo "$i seed=$S tier=$T rc=$rc wall=$(( $(date +%s) - t0 ))s $(head -1 /tmp/runall.$i.$S.out | cut -c1-110) $(grep -c VIOLATION /tmp/runall.$i.$S.out) viol"
done
