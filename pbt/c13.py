"""C13 - estimation is history-free; returned models are immutable snapshots (stateful)."""
import copy, itertools
import numpy as np
from hypothesis import strategies as st
from hypothesis.stateful import RuleBasedStateMachine, rule, initialize
from . import gen, oracles, inf, c03
from .common import Out, import_mbi, HarnessError, _frame_origin

ID = 'C13'
STATEFUL = True
RULE = ('Hypothesis RuleBasedStateMachine holding ONE FactoredInference object (warm_start drawn per history, optional '
        'structural zeros) over a drawn domain (2-4 attrs, sizes 1-3). Each step is estimate(measurements, total, solver, '
        'callback?) with a freshly drawn measurement list (0-4 measurements, projections re-used across calls with '
        'different same-shape queries, totals given/omitted, solver MD/RDA/IG, iters 1-30). After every call: (a) without '
        'warm start the returned model answers every attribute subset exactly like a fresh estimator given the same '
        'arguments; (b) every model returned earlier still gives bit-identical answers to its snapshot; (c) the '
        "caller's list, arrays, operators and zero dict are unchanged. Warm-start histories end with a long run per solver "
        'that must reach the certified optimum (C03 oracle) like a cold start. The executed call list is the replayable '
        'case. Non-trivial = >=2 calls whose projection sets differ (checked at call k>=2); distinct by sha1.')
BUDGET = {'quick': 400, 'thorough': 12000}   # histories
TIME = {'quick': 110, 'thorough': 1700}
STEPS = 5


@st.composite
def init_cases(draw, tier='quick'):
    dom = draw(gen.domains(2, 4 if tier == 'quick' else 5, 1, 3 if tier == 'quick' else 4, cap=81 if tier == 'quick' else 400))
    attrs, shape = dom['attrs'], dom['shape']
    witness = [draw(st.integers(0, s - 1)) for s in shape]
    profile = draw(st.sampled_from(['cold', 'cold', 'cold', 'cold_zeros', 'warm', 'warm_zeros', 'warm_final', 'warm_final_zeros']))
    zeros = draw(inf.zero_specs(attrs, shape, witness)) if profile.endswith('zeros') else []
    return {'domain': dom, 'witness': witness, 'zeros': zeros, 'warm_start': profile.startswith('warm'),
            'data_seed': draw(st.integers(0, 2**31 - 1)), 'true_total': draw(st.sampled_from([1.0, 20.0, 500.0])),
            'final_solver': draw(st.sampled_from(['MD', 'RDA', 'IG'])), 'final_check': 'final' in profile}


meas_idx = st.lists(st.fixed_dictionaries({
    'ix': st.lists(st.integers(0, 3), min_size=1, max_size=3, unique=True),
    'q': inf.q_specs(['none', 'identity', 'sparse_eye', 'scaled', 'dense', 'dense', 'prefix', 'linop', 'total']),
    'noise': st.sampled_from([1.0, 1.0, 0.3, 4.0]), 'yseed': st.integers(0, 2**31 - 1), 'noise_mult': st.sampled_from([0.0, 1.0, 3.0])}),
    min_size=0, max_size=4)


def subsets(attrs):
    for r in range(0, len(attrs) + 1):
        for sub in itertools.combinations(attrs, r):
            yield list(sub)


def answers(model, attrs):
    out = {}
    for sub in subsets(attrs):
        out[tuple(sub)] = np.array(model.project(tuple(sub)).values, dtype=float).copy()
    out['__dv__'] = np.array(model.datavector(), dtype=float).copy()
    return out


def freeze_meas(ms):
    from scipy import sparse
    fz = []
    for Q, y, noise, proj in ms:
        if Q is None: q = None
        elif sparse.issparse(Q): q = ('sparse', Q.copy())
        elif isinstance(Q, np.ndarray): q = ('dense', Q.copy())
        else: q = ('linop', Q.matmat(np.eye(Q.shape[1])))
        fz.append((q, y.copy(), noise, copy.deepcopy(proj)))
    return fz


def same_meas(ms, fz):
    from scipy import sparse
    if len(ms) != len(fz): return 'length of the measurement list changed'
    for (Q, y, noise, proj), (q0, y0, n0, p0) in zip(ms, fz):
        if not np.array_equal(y, y0): return 'a y vector was modified'
        if noise != n0 or proj != p0 or type(proj) is not type(p0): return 'noise/proj of a measurement changed'
        if q0 is None:
            if Q is not None: return 'Q=None was replaced'
        elif q0[0] == 'sparse':
            if not sparse.issparse(Q) or (Q != q0[1]).nnz != 0: return 'a sparse query matrix was modified'
        elif q0[0] == 'dense':
            if not np.array_equal(Q, q0[1]): return 'a dense query matrix was modified'
        else:
            if not np.array_equal(Q.matmat(np.eye(Q.shape[1])), q0[1]): return 'a query operator changed'
    return None


class State(object):
    def __init__(self, init):
        self.mbi = mbi = import_mbi()
        self.init = init
        self.attrs, self.shape = list(init['domain']['attrs']), list(init['domain']['shape'])
        self.domain = mbi.Domain(self.attrs, self.shape)
        self.zeros = inf.zeros_dict(init['zeros'])
        self.zeros_copy = copy.deepcopy(self.zeros)
        self.engine = mbi.FactoredInference(self.domain, iters=5, warm_start=init['warm_start'], structural_zeros=self.zeros)
        self.models = []     # (model, snapshot)
        self.proj_sets = []
        self.flags = set()
        self.offset = 0.0
        self.last = None

    def tables(self, total):
        tt = total if total is not None else self.init['true_total']
        return inf.true_table(self.init['data_seed'], self.shape, tt)


def build(state, op):
    sizes = dict(zip(state.attrs, state.shape))
    specs = []
    for m in op['meas']:
        proj = list(m['proj'])
        n = int(np.prod([sizes[a] for a in proj]))
        if op['solver'] in ('RDA', 'IG') and n < 2:
            continue
        specs.append(m)
    X = state.tables(op['total'])
    return inf.expand(specs, state.attrs, state.shape, X, spelling=op.get('spelling', 'tuple'))


def apply_op(state, op, out):
    mbi = state.mbi
    meas = build(state, op)
    ms = [m.tuple for m in meas]
    if op.get('reuse_list') and getattr(state, 'caller_list', None) is not None:
        # the caller keeps ONE list object and edits it in place between calls (replace entries, pop, append)
        lst = state.caller_list
        for i, m in enumerate(ms):
            if i < len(lst): lst[i] = m
            else: lst.append(m)
        del lst[len(ms):]
        ms = lst
        state.flags.add('same_list_object_edited')
    state.caller_list = ms
    fz = freeze_meas(ms)
    calls = []
    cb = (lambda mu: calls.append(1)) if op.get('callback') else None
    state.engine.iters = op['iters']
    model = state.engine.estimate(ms, total=op['total'], engine=op['solver'], callback=cb)
    state.offset = max(state.offset, inf.theta_offset(model))
    out.extra['theta_offset'] = state.offset
    # (c) caller inputs untouched
    why = same_meas(ms, fz)
    if why:
        return out.fail('mutated:measurements', why)
    if state.zeros != state.zeros_copy:
        return out.fail('mutated:structural_zeros', "the caller's structural_zeros dict was modified")
    # (b) earlier models are snapshots
    for k, (m_old, snap) in enumerate(state.models):
        if m_old is model:
            return out.fail('aliased:model', 'call %d returned the same model object as call %d' % (len(state.models) + 1, k + 1))
        now = answers(m_old, state.attrs)
        for key in snap:
            if not np.array_equal(now[key], snap[key], equal_nan=True):
                return out.fail('snapshot_changed', 'answers of the model returned by call %d changed after call %d (query %s)' % (k + 1, len(state.models) + 1, key))
    snap = answers(model, state.attrs)
    # (a) history-free
    psets = sorted(set(tuple(sorted(m.proj)) for m in meas))
    if not state.init['warm_start']:
        fresh = mbi.FactoredInference(state.domain, iters=op['iters'], warm_start=False, structural_zeros=copy.deepcopy(state.zeros_copy))
        ms2 = [m.tuple for m in build(state, op)]
        ref_model = fresh.estimate(ms2, total=op['total'], engine=op['solver'])
        if float(ref_model.total) != float(model.total):
            return out.fail('history_dependent:total', 'total %r after history, %r from a fresh estimator' % (model.total, ref_model.total))
        ref = answers(ref_model, state.attrs)
        tot = float(model.total)
        for key in snap:
            a, b = snap[key], ref[key]
            if a.shape != b.shape or not np.all(np.abs(a - b) <= 1e-9 * tot) and not (np.isnan(a).any() and np.isnan(b).any()):
                return out.fail('history_dependent', 'call %d (%s, iters=%d): answer %s differs from a fresh estimator by %g (total %g)' % (
                    len(state.models) + 1, op['solver'], op['iters'], key, float(np.nanmax(np.abs(a - b))) if a.shape == b.shape else -1, tot))
        if state.models and state.proj_sets and psets != state.proj_sets[-1]:
            state.flags.add('compared_after_changed_cliques')
    else:
        if state.models and state.proj_sets and psets != state.proj_sets[-1]:
            state.flags.add('compared_after_changed_cliques')
        if state.models and state.proj_sets and psets == state.proj_sets[-1]:
            state.flags.add('warm_same_cliques')
    state.models.append((model, snap))
    state.proj_sets.append(psets)
    state.last = op
    state.flags.add('solver:' + op['solver'])
    if op.get('callback'): state.flags.add('callback')


def final_check(state, out):
    """Warm start still converges to the certified optimum (and so does a cold start)."""
    init = state.init
    if not (init['warm_start'] and init['final_check'] and state.last is not None and len(state.models) >= 1):
        return
    mbi = state.mbi
    op = dict(state.last); op['solver'] = init['final_solver']
    meas = build(state, op)
    if not meas or state.offset >= 1e6:
        return
    A, b = inf.stacked(meas, state.attrs, state.shape)
    zmask = inf.zero_mask(init['zeros'], state.attrs, state.shape).flatten() if init['zeros'] else None
    if zmask is not None and zmask.any():
        A = A[:, ~zmask]          # optimum over tables supported on the structurally possible cells only
        state.flags.add('final_with_zeros')
    for mode in ('warm', 'cold'):
        excess = []
        thetas = []
        for T in c03.LEVELS:
            if mode == 'warm':
                eng = state.engine
            else:
                eng = mbi.FactoredInference(state.domain, warm_start=False)
            if mode == 'cold':
                eng = mbi.FactoredInference(state.domain, warm_start=False, structural_zeros=copy.deepcopy(state.zeros_copy))
            eng.iters = T
            model = eng.estimate([m.tuple for m in build(state, op)], total=op['total'], engine=op['solver'])
            tot = float(model.total)
            if not excess:
                p, f_hi, gap = oracles.simplex_qp(A, b, tot)
                n = A.shape[1]
                f_unif = 0.5 * float(np.sum((A @ np.full(n, tot / n) - b) ** 2))
                if not gap <= 1e-9 * (f_unif + 1.0):
                    out.inconclusive = True; return
            L = inf.loss_from_answers(meas, lambda proj: model.project(tuple(proj)).values)
            snap = np.concatenate([np.where(np.isfinite(model.potentials[c].values), model.potentials[c].values, 0.0).flatten() for c in model.cliques])
            if thetas and thetas[-1].shape == snap.shape and float(np.max(np.abs(thetas[-1] - snap))) < 0.05 * (float(np.ptp(snap)) + 1.0) and op['solver'] == 'MD':
                out.extra['md_step_collapsed'] = True       # root-cause signature of F21: the potentials move by < 5% of their spread between T/4 and T iterations
            thetas.append(snap)
            off = inf.theta_offset(model)
            out.extra['theta_offset'] = max(out.extra.get('theta_offset', 0.0), off)
            if L < (f_hi - gap) - 1e-6 * (f_unif + 1.0):
                return out.fail('%s_start_below_feasible_optimum' % mode, '%s start with %s: loss %r is below the certified minimum %r over tables supported on the structurally possible cells (a different optimum than a cold start reaches)' % (mode, op['solver'], L, f_hi - gap))
            denom = f_unif - f_hi
            floor = inf.loss_floor(meas, tot)
            if denom <= 1e-3 * f_unif or denom <= 1e3 * floor:
                e = 0.0 if L - f_hi <= 1e-6 * f_unif + 1e3 * floor else (L - f_hi) / max(denom, 1e-300)
            else:
                e = (L - f_hi) / denom
            if L - f_hi <= 1e-4:
                e = min(e, 0.0) if e < 0 else 0.0     # within 1e-4 (in units of noise-normalised squared error) of the optimum: attained
            excess.append(e)
            if e <= 1e-3: break
        state.flags.add('final_%s_checked' % mode)
        if excess[-1] > 1e-3:
            if len(excess) >= 2 and excess[-1] > excess[-2] / 2:
                return out.fail('warm_start_plateau' if mode == 'warm' else 'cold_start_plateau',
                                '%s start with %s: relative excess over the certified optimum %s at iterations %s' % (
                                    mode, op['solver'], ['%.3g' % x for x in excess], list(c03.LEVELS[:len(excess)])))
            out.inconclusive = True


def finish(state, out):
    out.nontrivial = 'compared_after_changed_cliques' in state.flags and len(state.models) >= 2
    out.classes = sorted(state.flags) + ['calls:%d' % len(state.models)] + (['warm_start'] if state.init['warm_start'] else ['cold']) + (['zeros'] if state.init['zeros'] else [])
    return out


def run_case(case):
    out = Out()
    state = State(case['init'])
    for op in case['ops']:
        apply_op(state, op, out)
        if not out.ok: break
    if out.ok:
        final_check(state, out)
    return finish(state, out)


def machine(tier, record, timeup):
    class M(RuleBasedStateMachine):
        def __init__(self):
            super().__init__()
            self.state = None; self.history = []; self.out = Out(); self.init = None

        @initialize(init=init_cases(tier))
        def start(self, init):
            if timeup(): return
            self.init = init
            self.state = State(init)

        @rule(meas=meas_idx, total=st.sampled_from([None, 1.0, 10, 500.0, 37.5]), solver=st.sampled_from(['MD', 'MD', 'RDA', 'IG']),
              iters=st.sampled_from([1, 2, 5, 30]), callback=st.booleans(), spelling=st.sampled_from(['tuple', 'list']), reuse=st.booleans())
        def estimate(self, meas, total, solver, iters, callback, spelling, reuse):
            if self.state is None or not self.out.ok or timeup():
                return
            a = self.state.attrs
            ms = []
            for m in meas:
                proj = [a[i] for i in m['ix'] if i < len(a)]
                if not proj: continue
                ms.append({'proj': proj, 'q': m['q'], 'noise': m['noise'], 'yseed': m['yseed'], 'noise_mult': m['noise_mult']})
            op = {'op': 'estimate', 'meas': ms, 'total': total, 'solver': solver, 'iters': iters, 'callback': callback, 'spelling': spelling, 'reuse_list': reuse}
            self.history.append(op)
            try:
                from .common import quiet
                with quiet():
                    apply_op(self.state, op, self.out)
            except HarnessError:
                raise
            except Exception as e:
                import traceback
                origin, where = _frame_origin(e.__traceback__)
                if origin != 'repo':
                    raise HarnessError('harness exception %s: %s\n%s' % (where, e, traceback.format_exc()))
                self.out.fail('exception:%s' % type(e).__name__, '%s: %s' % (type(e).__name__, e), where)
                self.out.extra['traceback'] = traceback.format_exc()[-3000:]

        def teardown(self):
            if self.state is not None and self.history:
                if self.out.ok and not timeup():
                    from .common import quiet
                    try:
                        with quiet():
                            final_check(self.state, self.out)
                    except HarnessError:
                        raise
                    except Exception as e:
                        import traceback
                        origin, where = _frame_origin(e.__traceback__)
                        if origin != 'repo':
                            raise HarnessError('harness exception %s: %s\n%s' % (where, e, traceback.format_exc()))
                        self.out.fail('exception:%s' % type(e).__name__, '%s: %s (warm-start convergence check)' % (type(e).__name__, e), where)
                        self.out.extra['traceback'] = traceback.format_exc()[-3000:]
                finish(self.state, self.out)
                record({'init': self.init, 'ops': self.history}, self.out)

    return M, STEPS


def _md_stalled(case, outc):
    return outc.extra.get('theta_offset', 0.0) >= 1e6 and (any(o.get('solver') == 'MD' for o in case.get('ops', [])) or case.get('init', {}).get('final_solver') == 'MD')


def _md_collapsed(case, outc):
    return bool(outc.extra.get('md_step_collapsed')) and case.get('init', {}).get('final_solver') == 'MD'


KNOWN = {'md_step_doubling': _md_stalled, 'md_step_collapsed': _md_collapsed}
