"""C07 - zCDP <-> (eps, delta) conversions are sound, tight and mutually inverse."""
import math
import numpy as np
from hypothesis import strategies as st
from . import oracles
from .common import Out, setup_paths

ID = 'C07'
RULE = ('Grid part (enumerated completely on every run): cdp_delta on a 61x61 log grid rho in [1e-6,1e2] x eps in '
        '[1e-3,1e2] (thorough 161x161); cdp_rho(eps,delta) and cdp_eps(rho,delta) on 16-point log grids with delta in '
        '[1e-15,0.5] (thorough 41). Every point is checked for soundness against the reference minimiser and the exact '
        'Gaussian delta, tightness against the reference optimum, monotonicity against its grid neighbours and the '
        'inverse relations. Generated part: Hypothesis draws random (rho, eps, delta) and a second point differing in one '
        'coordinate. Non-trivial = the result is not clamped (0 < delta-value < 1, eps > 0, rho > 0); distinct = distinct '
        'grid points / sha1 of the case.')
BUDGET = {'quick': 96, 'thorough': 4000}
TIME = {'quick': 110, 'thorough': 1700}
EXH_TIME_FRACTION = 0.8
ASSUMPTIONS = ['reference optimiser: dense log grid over alpha-1 in [1e-12,1e9] + golden section (pbt/oracles.py)']


def mod():
    setup_paths()
    from mechanisms import cdp2adp
    return cdp2adp


def bound_at(alpha, rho, eps):
    return math.exp((alpha - 1) * (alpha * rho - eps) + alpha * math.log1p(-1 / alpha)) / (alpha - 1.0)


def check_delta_point(m, rho, eps, fails, tag=''):
    """Clauses (b), (c) at one point.  Returns (value, nontrivial)."""
    d = m.cdp_delta(rho, eps)
    ref, astar = oracles.ref_cdp_delta(rho, eps)
    g = oracles.gauss_delta_exact(rho, eps)
    case = {'fn': 'cdp_delta', 'rho': rho, 'eps': eps}
    if not (0.0 <= d <= 1.0) or math.isnan(d):
        fails.append((case, fail('invalid:range', 'cdp_delta(%r,%r) = %r' % (rho, eps, d))))
    elif d < g * (1 - 1e-9) - 1e-300:
        fails.append((case, fail('unsound:below_exact_gaussian', 'cdp_delta(%r,%r) = %r is below the exact delta %r of the Gaussian mechanism' % (rho, eps, d, g))))
    elif d < ref * (1 - 1e-6) - 1e-300:
        fails.append((case, fail('unsound:below_bound_optimum', 'cdp_delta(%r,%r) = %r is below the minimum %r of the Renyi-order bound' % (rho, eps, d, ref))))
    elif d > ref * (1 + 1e-6) + 1e-300:
        if astar < 1.01:
            want = min(1.0, bound_at(1.01, rho, eps))
            if abs(d - want) <= 1e-9 * want:
                fails.append((case, fail('loose:alpha_floor', 'cdp_delta(%r,%r) = %r but the optimum of the bound is %r (alpha*=%.6f < documented floor 1.01)' % (rho, eps, d, ref, astar), {'alpha_star': astar})))
            else:
                fails.append((case, fail('loose:not_documented_value', 'cdp_delta(%r,%r) = %r, optimum %r, value at the alpha floor %r' % (rho, eps, d, ref, want))))
        else:
            fails.append((case, fail('loose:above_optimum', 'cdp_delta(%r,%r) = %r exceeds the optimum %r of the bound (alpha*=%.4f)' % (rho, eps, d, ref, astar))))
    return d, (0.0 < d < 1.0)


def fail(kind, detail, extra=None):
    return {'ok': False, 'kind': kind, 'where': '', 'detail': detail, 'nontrivial': True, 'classes': [], 'inconclusive': False, 'extra': extra or {}}


def grids(tier):
    n1 = 61 if tier == 'quick' else 161
    n2 = 16 if tier == 'quick' else 41
    return (np.exp(np.linspace(math.log(1e-6), math.log(1e2), n1)), np.exp(np.linspace(math.log(1e-3), math.log(1e2), n1)),
            np.exp(np.linspace(math.log(1e-6), math.log(1e2), n2)), np.exp(np.linspace(math.log(1e-3), math.log(1e2), n2)),
            np.exp(np.linspace(math.log(1e-15), math.log(0.5), n2)))


def exhaustive(tier):
    rho1, eps1, rho2, eps2, del2 = grids(tier)
    items = []
    step = 8
    for lo in range(0, len(rho1) - 1, step):
        items.append({'kind': 'delta', 'tier': tier, 'lo': lo, 'hi': min(len(rho1), lo + step + 1)})
    for lo in range(0, len(eps2) - 1, 2):
        items.append({'kind': 'rho', 'tier': tier, 'lo': lo, 'hi': min(len(eps2), lo + 3)})
    for lo in range(0, len(rho2) - 1, 2):
        items.append({'kind': 'eps', 'tier': tier, 'lo': lo, 'hi': min(len(rho2), lo + 3)})
    return items


def run_exhaustive(item):
    m = mod()
    rho1, eps1, rho2, eps2, del2 = grids(item['tier'])
    fails = []
    n_ev = n_nt = 0
    sample = None
    if item['kind'] == 'delta':
        rows = range(item['lo'], item['hi'])
        V = {}
        for i in rows:
            for j, e in enumerate(eps1):
                d, nt = check_delta_point(m, float(rho1[i]), float(e), fails)
                V[i, j] = d
                if i > item['lo'] or item['lo'] == 0:
                    n_ev += 1; n_nt += 1 if nt else 0
        for i in rows:
            for j in range(len(eps1)):
                if j + 1 < len(eps1) and V[i, j + 1] > V[i, j] * (1 + 1e-12) + 1e-300:
                    fails.append(({'fn': 'cdp_delta', 'rho': float(rho1[i]), 'eps': float(eps1[j]), 'eps2': float(eps1[j + 1])},
                                  fail('nonmonotone:delta_in_eps', 'cdp_delta(%r, .) increases from eps=%r (%r) to eps=%r (%r)' % (rho1[i], eps1[j], V[i, j], eps1[j + 1], V[i, j + 1]))))
                if (i + 1, j) in V and V[i + 1, j] < V[i, j] * (1 - 1e-12) - 1e-300:
                    fails.append(({'fn': 'cdp_delta', 'rho': float(rho1[i]), 'rho2': float(rho1[i + 1]), 'eps': float(eps1[j])},
                                  fail('nonmonotone:delta_in_rho', 'cdp_delta(., %r) decreases from rho=%r (%r) to rho=%r (%r)' % (eps1[j], rho1[i], V[i, j], rho1[i + 1], V[i + 1, j]))))
        sample = {'fn': 'cdp_delta', 'rho': float(rho1[item['lo']]), 'eps': float(eps1[len(eps1) // 2]), 'value': V[item['lo'], len(eps1) // 2]}
        label = 'cdp_delta grid'
    elif item['kind'] == 'rho':
        rows = range(item['lo'], item['hi'])
        V = {}
        for i in rows:
            for j, dl in enumerate(del2):
                eps, dl = float(eps2[i]), float(dl)
                r = m.cdp_rho(eps, dl)
                V[i, j] = r
                counted = i > item['lo'] or item['lo'] == 0
                if counted:
                    n_ev += 1; n_nt += 1 if r > 0 else 0
                case = {'fn': 'cdp_rho', 'eps': eps, 'delta': dl}
                if not (r >= 0) or math.isnan(r):
                    fails.append((case, fail('invalid:range', 'cdp_rho(%r,%r) = %r' % (eps, dl, r)))); continue
                if r > 0:
                    back = m.cdp_delta(r, eps)
                    ref, astar = oracles.ref_cdp_delta(r, eps)
                    if back > dl * (1 + 1e-9) or ref > dl * (1 + 1e-6):
                        fails.append((case, fail('unsound:budget_too_large', 'cdp_rho(%r,%r) = %r implies delta %r (reference %r) > target' % (eps, dl, r, back, ref))))
                    # tight: a slightly larger budget would already exceed the target
                    ref2, _ = oracles.ref_cdp_delta(r * (1 + 1e-5), eps)
                    if ref2 < dl * (1 - 1e-6) and astar >= 1.01:
                        fails.append((case, fail('loose:budget_too_small', 'cdp_rho(%r,%r) = %r but a budget 1e-5 larger still implies delta %r < target' % (eps, dl, r, ref2))))
                    e2 = m.cdp_eps(r, dl)
                    if counted and abs(e2 - eps) > 1e-6 * eps:
                        fails.append((case, fail('inverse:eps_of_rho', 'cdp_eps(cdp_rho(%r,%r),%r) = %r' % (eps, dl, dl, e2))))
        for i in rows:
            for j in range(len(del2)):
                if j + 1 < len(del2) and V[i, j + 1] < V[i, j] * (1 - 1e-12):
                    fails.append(({'fn': 'cdp_rho', 'eps': float(eps2[i]), 'delta': float(del2[j]), 'delta2': float(del2[j + 1])}, fail('nonmonotone:rho_in_delta', 'cdp_rho(%r, .) decreases from delta=%r (%r) to %r (%r)' % (eps2[i], del2[j], V[i, j], del2[j + 1], V[i, j + 1]))))
                if (i + 1, j) in V and V[i + 1, j] < V[i, j] * (1 - 1e-12):
                    fails.append(({'fn': 'cdp_rho', 'eps': float(eps2[i]), 'eps2': float(eps2[i + 1]), 'delta': float(del2[j])}, fail('nonmonotone:rho_in_eps', 'cdp_rho(., %r) decreases from eps=%r (%r) to %r (%r)' % (del2[j], eps2[i], V[i, j], eps2[i + 1], V[i + 1, j]))))
        sample = {'fn': 'cdp_rho', 'eps': float(eps2[item['lo']]), 'delta': float(del2[5]), 'value': V[item['lo'], 5]}
        label = 'cdp_rho grid'
    else:
        rows = range(item['lo'], item['hi'])
        V = {}
        for i in rows:
            for j, dl in enumerate(del2):
                rho, dl = float(rho2[i]), float(dl)
                e = m.cdp_eps(rho, dl)
                V[i, j] = e
                counted = i > item['lo'] or item['lo'] == 0
                if counted:
                    n_ev += 1; n_nt += 1 if e > 0 else 0
                case = {'fn': 'cdp_eps', 'rho': rho, 'delta': dl}
                if not (e >= 0) or math.isnan(e):
                    fails.append((case, fail('invalid:range', 'cdp_eps(%r,%r) = %r' % (rho, dl, e)))); continue
                ref0, _ = oracles.ref_cdp_delta(rho, 0.0)
                if ref0 <= dl * (1 + 1e-6):
                    # eps = 0 already suffices: the correct answer is the clamp value 0
                    if e > 1e-12:
                        fails.append((case, fail('loose:eps_not_clamped', 'cdp_eps(%r,%r) = %r although eps=0 already gives delta %r' % (rho, dl, e, ref0))))
                    if counted: n_nt -= 1 if e > 0 else 0
                elif e > 0:
                    back = m.cdp_delta(rho, e)
                    ref, astar = oracles.ref_cdp_delta(rho, e)
                    if back > dl * (1 + 1e-9) or ref > dl * (1 + 1e-6):
                        fails.append((case, fail('unsound:eps_too_small', 'cdp_eps(%r,%r) = %r implies delta %r (reference %r) > target' % (rho, dl, e, back, ref))))
                    elif back < dl * (1 - 1e-6) and astar >= 1.01:
                        fails.append((case, fail('loose:eps_too_large', 'cdp_delta(%r, cdp_eps(%r,%r)) = %r, well below the target' % (rho, rho, dl, back))))
                    r2 = m.cdp_rho(e, dl)
                    if counted and abs(r2 - rho) > 1e-6 * rho and astar >= 1.01:
                        fails.append((case, fail('inverse:rho_of_eps', 'cdp_rho(cdp_eps(%r,%r),%r) = %r' % (rho, dl, dl, r2))))
        for i in rows:
            for j in range(len(del2)):
                if j + 1 < len(del2) and V[i, j + 1] > V[i, j] * (1 + 1e-12) + 1e-300:
                    fails.append(({'fn': 'cdp_eps', 'rho': float(rho2[i]), 'delta': float(del2[j]), 'delta2': float(del2[j + 1])}, fail('nonmonotone:eps_in_delta', 'cdp_eps(%r, .) increases from delta=%r (%r) to %r (%r)' % (rho2[i], del2[j], V[i, j], del2[j + 1], V[i, j + 1]))))
                if (i + 1, j) in V and V[i + 1, j] < V[i, j] * (1 - 1e-12):
                    fails.append(({'fn': 'cdp_eps', 'rho': float(rho2[i]), 'rho2': float(rho2[i + 1]), 'delta': float(del2[j])}, fail('nonmonotone:eps_in_rho', 'cdp_eps(., %r) decreases from rho=%r (%r) to %r (%r)' % (del2[j], rho2[i], V[i, j], rho2[i + 1], V[i + 1, j]))))
        sample = {'fn': 'cdp_eps', 'rho': float(rho2[item['lo']]), 'delta': float(del2[5]), 'value': V[item['lo'], 5]}
        label = 'cdp_eps grid'
    return n_ev, n_nt, fails[:60], sample, label


# ----------------------------------------------------------------------------- generated part

logf = lambda lo, hi: st.floats(math.log(lo), math.log(hi)).map(lambda x: float(math.exp(x)))


@st.composite
def cases(draw, tier='quick'):
    return {'rho': draw(logf(1e-6, 1e2)), 'eps': draw(logf(1e-3, 1e2)), 'delta': draw(logf(1e-15, 0.5)),
            'which': draw(st.sampled_from(['rho', 'eps', 'delta'])), 'factor': draw(st.sampled_from([1.0000001, 1.001, 1.5, 10.0, 1000.0]))}


def strategy(tier):
    return cases(tier)


def run_case(case):
    m = mod()
    out = Out()
    case = dict({'rho': 1.0, 'eps': 1.0, 'delta': 1e-6, 'which': 'rho', 'factor': 1.5}, **case)   # grid cases carry only their own coordinates
    if 'rho2' in case: case['which'], case['factor'] = 'rho', case['rho2'] / case['rho']
    if 'eps2' in case: case['which'], case['factor'] = 'eps', case['eps2'] / case['eps']
    if 'delta2' in case: case['which'], case['factor'] = 'delta', case['delta2'] / case['delta']
    rho, eps, dl = case['rho'], case['eps'], case['delta']
    fails = []
    d, nt = check_delta_point(m, rho, eps, fails)
    r = m.cdp_rho(eps, dl)
    e = m.cdp_eps(rho, dl)
    if r > 0:
        ref, astar = oracles.ref_cdp_delta(r, eps)
        if m.cdp_delta(r, eps) > dl * (1 + 1e-9) or ref > dl * (1 + 1e-6):
            fails.append((case, fail('unsound:budget_too_large', 'cdp_rho(%r,%r) = %r implies delta %r > target' % (eps, dl, r, ref))))
        ref2, _ = oracles.ref_cdp_delta(r * (1 + 1e-5), eps)
        if ref2 < dl * (1 - 1e-6) and astar >= 1.01:
            fails.append((case, fail('loose:budget_too_small', 'cdp_rho(%r,%r) = %r; 1e-5 more still implies %r' % (eps, dl, r, ref2))))
        if abs(m.cdp_eps(r, dl) - eps) > 1e-6 * eps:
            fails.append((case, fail('inverse:eps_of_rho', 'cdp_eps(cdp_rho(%r,%r),.) = %r' % (eps, dl, m.cdp_eps(r, dl)))))
    ref0, _ = oracles.ref_cdp_delta(rho, 0.0)
    eps_clamped = ref0 <= dl * (1 + 1e-6)
    if eps_clamped:
        if e > 1e-12:
            fails.append((case, fail('loose:eps_not_clamped', 'cdp_eps(%r,%r) = %r although eps=0 already gives delta %r' % (rho, dl, e, ref0))))
    elif e > 0:
        ref, astar = oracles.ref_cdp_delta(rho, e)
        back = m.cdp_delta(rho, e)
        if back > dl * (1 + 1e-9) or ref > dl * (1 + 1e-6):
            fails.append((case, fail('unsound:eps_too_small', 'cdp_eps(%r,%r) = %r implies delta %r > target' % (rho, dl, e, ref))))
        elif back < dl * (1 - 1e-6) and astar >= 1.01:
            fails.append((case, fail('loose:eps_too_large', 'cdp_delta(%r,cdp_eps) = %r << target %r' % (rho, back, dl))))
    # monotonicity against a second point
    f = case['factor']
    if case['which'] == 'rho':
        rho2 = min(rho * f, 1e2)
        if m.cdp_delta(rho2, eps) < d * (1 - 1e-12): fails.append((case, fail('nonmonotone:delta_in_rho', 'rho %r -> %r' % (rho, rho2))))
        if m.cdp_eps(rho2, dl) < e * (1 - 1e-12): fails.append((case, fail('nonmonotone:eps_in_rho', 'rho %r -> %r' % (rho, rho2))))
    elif case['which'] == 'eps':
        eps2 = min(eps * f, 1e2)
        if m.cdp_delta(rho, eps2) > d * (1 + 1e-12) + 1e-300: fails.append((case, fail('nonmonotone:delta_in_eps', 'eps %r -> %r' % (eps, eps2))))
        if m.cdp_rho(eps2, dl) < r * (1 - 1e-12): fails.append((case, fail('nonmonotone:rho_in_eps', 'eps %r -> %r' % (eps, eps2))))
    else:
        d2 = min(dl * f, 0.5)
        if m.cdp_rho(eps, d2) < r * (1 - 1e-12): fails.append((case, fail('nonmonotone:rho_in_delta', 'delta %r -> %r' % (dl, d2))))
        if m.cdp_eps(rho, d2) > e * (1 + 1e-12) + 1e-300: fails.append((case, fail('nonmonotone:eps_in_delta', 'delta %r -> %r' % (dl, d2))))
    if fails:
        # report the first non-known failure if there is one, else the known one
        fails.sort(key=lambda cf: cf[1]['kind'] == 'loose:alpha_floor')
        fd = fails[0][1]
        out.fail(fd['kind'], fd['detail']); out.extra.update(fd.get('extra', {}))
    out.nontrivial = 0 < d < 1 and e > 0 and r > 0 and not eps_clamped
    out.classes = ['varied:' + case['which']]
    return out


def _alpha_floor(case, outc):
    return outc.extra.get('alpha_star', 9.0) < 1.01


KNOWN = {'alpha_floor': _alpha_floor}
