"""Shared pieces for the estimation properties (C03, C04, C08, C09, C10, C13, C18, C19):
measurement strategies, expansion into library objects + dense oracle matrices, loss recomputation."""
import math
import numpy as np
from hypothesis import strategies as st
from . import gen, oracles

Q_KINDS = ['none', 'identity', 'sparse_eye', 'dense', 'dense', 'prefix', 'sparse_prefix', 'linop', 'linop_eye', 'total', 'scaled', 'sparse_perm']


@st.composite
def q_specs(draw, kinds=None):
    k = draw(st.sampled_from(kinds or Q_KINDS))
    return {'kind': k, 'rows': draw(st.integers(1, 6)), 'seed': draw(st.integers(0, 2**31 - 1)),
            'c': draw(st.sampled_from([0.5, 2.0, 3.0]))}


def build_Q(spec, n):
    """Return (object handed to the library, dense ndarray for the oracle)."""
    from scipy import sparse
    from scipy.sparse.linalg import aslinearoperator
    k = spec['kind']
    rng = np.random.Generator(np.random.PCG64(spec['seed']))
    if k == 'none':
        return None, np.eye(n)
    if k == 'identity':
        D = np.eye(n); return D.copy(), D
    if k == 'sparse_eye':
        return sparse.eye(n, format='csr'), np.eye(n)
    if k == 'scaled':
        D = spec['c'] * np.eye(n); return D.copy(), D
    if k == 'sparse_perm':
        # the cells in another order (or a subset of them): square-ish 0/1 matrix with one entry per row, csr or coo
        rows = rng.permutation(n)[:max(1, n - (spec['rows'] % 2))]
        D = np.zeros((len(rows), n)); D[np.arange(len(rows)), rows] = 1.0
        return (sparse.csr_matrix(D) if spec['rows'] % 3 else sparse.coo_matrix(D)), D
    if k == 'dense':
        r = min(spec['rows'], n + 2)
        D = rng.standard_normal(size=(r, n)); return D.copy(), D
    if k == 'prefix':
        D = np.tril(np.ones((n, n))); return D.copy(), D
    if k == 'sparse_prefix':
        D = np.tril(np.ones((n, n))); return sparse.csr_matrix(D), D
    if k == 'linop':
        r = min(spec['rows'], n + 2)
        D = rng.standard_normal(size=(r, n)); return aslinearoperator(D.copy()), D
    if k == 'linop_eye':
        from scipy.sparse.linalg import LinearOperator
        # an identity operator in the style of hdmm.matrix.Identity: matvec hands back the very array it was given
        return LinearOperator((n, n), matvec=lambda v: v, rmatvec=lambda v: v, matmat=lambda V: V, dtype=float), np.eye(n)
    if k == 'total':
        D = np.ones((1, n)); return D.copy(), D
    if k == 'zero':
        D = np.zeros((min(spec['rows'], 3), n)); return D.copy(), D
    raise ValueError(k)


@st.composite
def measurement_specs(draw, attrs, shape, min_m=1, max_m=5, max_proj=3, max_cells=64, kinds=None, noise_lo=0.1, noise_hi=10.0, tiny_noise=False):
    sizes = dict(zip(attrs, shape))
    m = draw(st.integers(min_m, max_m))
    out = []
    for _ in range(m):
        proj = draw(gen.ordered_subset(attrs, 1, max_proj))
        while int(np.prod([sizes[a] for a in proj])) > max_cells and len(proj) > 1:
            proj = proj[:-1]
        mode = draw(st.sampled_from(['new', 'new', 'new', 'dup', 'nest', 'reorder', 'overlap', 'overlap'])) if out else 'new'
        if mode == 'dup':
            proj = list(draw(st.sampled_from(out))['proj'])
        elif mode == 'nest':
            base = draw(st.sampled_from(out))['proj']
            proj = list(base[:max(1, len(base) - 1)])
        elif mode == 'overlap':
            base = draw(st.sampled_from(out))['proj']
            others = [a for a in attrs if a not in base]
            if others:
                keep = draw(st.sampled_from(base))
                new = draw(st.sampled_from(others))
                proj = [keep, new] if draw(st.booleans()) else [new, keep]
                if int(np.prod([sizes[a] for a in proj])) > max_cells:
                    proj = [new]
        elif mode == 'reorder':
            base = draw(st.sampled_from(out))['proj']
            proj = list(reversed(base))
        if tiny_noise and draw(st.integers(0, 11)) == 0:
            nz = float(10 ** draw(st.floats(2.0, 6.0)))        # nearly uninformative measurements (noise far above the total)
        elif tiny_noise and draw(st.integers(0, 5)) == 0:
            nz = float(10 ** draw(st.floats(-4.5, -1.5)))      # measurements that are very precise relative to the total
        else:
            nz = float(10 ** draw(st.floats(math.log10(noise_lo), math.log10(noise_hi)))) if draw(st.booleans()) else 1.0
        out.append({'proj': proj, 'q': draw(q_specs(kinds)),
                    'noise': nz,
                    'yseed': draw(st.integers(0, 2**31 - 1)),
                    'noise_mult': draw(st.sampled_from([0.0, 1.0, 1.0, 3.0]))})
    return out


@st.composite
def hub_measurement_specs(draw, attrs, shape, kinds=None):
    """Tree of 2-attribute projections plus single-attribute projections on the shared attributes: every
    single-attribute measurement is contained in several maximal cliques (of different sizes)."""
    perm = list(draw(st.permutations(list(attrs))))
    edges = []
    chain = draw(st.booleans())
    for i in range(1, len(perm)):
        j = i - 1 if chain else draw(st.integers(0, i - 1))
        e = [perm[j], perm[i]]
        edges.append(e if draw(st.booleans()) else e[::-1])
    projs = edges + [[a] for a in perm if sum(1 for e in edges if a in e) >= 2 or draw(st.booleans())]
    projs = list(draw(st.permutations(projs)))
    out = []
    for p in projs:
        out.append({'proj': p, 'q': draw(q_specs(kinds or ['none', 'identity', 'sparse_eye', 'scaled', 'dense', 'prefix'])),
                    'noise': draw(st.sampled_from([1.0, 1.0, 0.5, 2.0])), 'yseed': draw(st.integers(0, 2**31 - 1)),
                    'noise_mult': draw(st.sampled_from([0.0, 1.0]))})
    return out


def true_table(seed, shape, total, conc=0.5):
    rng = np.random.Generator(np.random.PCG64(seed))
    x = rng.gamma(conc, size=tuple(shape)) + 1e-12
    return x / x.sum() * float(total)


class Meas(object):
    """Expanded measurement: library tuple + dense pieces for the oracle."""
    def __init__(self, spec, attrs, shape, X, proj_spelling='tuple'):
        sizes = dict(zip(attrs, shape))
        self.proj = list(spec['proj'])
        n = int(np.prod([sizes[a] for a in self.proj]))
        self.Qobj, self.Qd = build_Q(spec['q'], n)
        self.noise = float(spec['noise'])
        x = oracles.marg(X, attrs, self.proj).flatten()
        rng = np.random.Generator(np.random.PCG64(spec['yseed']))
        self.y = self.Qd @ x + spec['noise_mult'] * self.noise * rng.standard_normal(size=self.Qd.shape[0])
        if proj_spelling == 'list':
            p = list(self.proj)
        elif proj_spelling == 'str' and len(self.proj) == 1:
            p = self.proj[0]
        else:
            p = tuple(self.proj)
        self.tuple = (self.Qobj, self.y.copy(), self.noise, p)


def expand(case_meas, attrs, shape, X, spelling='tuple'):
    return [Meas(s, attrs, shape, X, spelling) for s in case_meas]


def stacked(meas, attrs, shape):
    """A, b with 1/2||A p - b||^2 = sum_m 1/2 ||(Q_m M_m p - y_m)/sigma_m||^2 over the flattened joint p."""
    rows, rhs = [], []
    for m in meas:
        M = oracles.marg_matrix(attrs, shape, m.proj)
        rows.append(m.Qd @ M / m.noise)
        rhs.append(m.y / m.noise)
    n = int(np.prod(shape))
    if not rows:
        return np.zeros((0, n)), np.zeros(0)
    return np.vstack(rows), np.concatenate(rhs)


def loss_from_answers(meas, answer_fn, metric='L2'):
    """answer_fn(proj list) -> ndarray in the requested order."""
    tot = 0.0
    for m in meas:
        x = np.asarray(answer_fn(m.proj), dtype=float).flatten()
        r = (m.Qd @ x - m.y) / m.noise
        tot += 0.5 * float(r @ r) if metric == 'L2' else float(np.abs(r).sum())
    return tot


def loss_floor(meas, total=1.0):
    """Numerical floor for loss comparisons: 1e-12 x (loss of the all-zero table + size of the model term + 1).  A
    squared-error loss is only resolved relative to the size of its terms (1e-12 vs 1e-28 are both 'zero' against answers
    of magnitude 40); all terms are divided by the noise scale, so the floor does not depend on the units."""
    z = 0.0
    for m in meas:
        r = m.y / m.noise
        u = (m.Qd @ np.full(m.Qd.shape[1], float(total) / m.Qd.shape[1])) / m.noise
        z += 0.5 * float(r @ r) + 0.5 * float(u @ u)
    return 1e-12 * (z + 1.0)


def model_answer_fn(model):
    def f(proj):
        fac = model.project(tuple(proj))
        if tuple(fac.domain.attrs) != tuple(proj):
            raise AssertionError('project(%s) returned axes %s' % (proj, fac.domain.attrs))
        return fac.values
    return f


# ----------------------------------------------------------------------------- estimation cases

@st.composite
def zero_specs(draw, attrs, shape, witness, allow_empty=False):
    """Structural zeros: {clique: [cells]} never covering the witness assignment."""
    sizes = dict(zip(attrs, shape))
    out = []
    for _ in range(draw(st.integers(1, 3))):
        cl = draw(gen.ordered_subset(attrs, 1, min(3, len(attrs))))
        if any(tuple(cl) == tuple(o['clique']) for o in out):
            continue
        dims = [sizes[a] for a in cl]
        ncell = int(np.prod(dims))
        wit = tuple(witness[attrs.index(a)] for a in cl)
        cells = []
        k = draw(st.integers(0 if allow_empty else 1, max(1, min(4, ncell - 1))))
        for _ in range(k):
            c = tuple(draw(st.integers(0, d - 1)) for d in dims)
            if c != wit and list(c) not in cells:
                cells.append(list(c))
        if cells or allow_empty:
            out.append({'clique': cl, 'cells': cells})
    return out


def zeros_dict(zspecs):
    return {tuple(z['clique']): [tuple(c) for c in z['cells']] for z in zspecs}


def zero_mask(zspecs, attrs, shape):
    """Boolean table over the full domain: True where some declared-zero cell applies."""
    mask = np.zeros(shape, dtype=bool)
    for z in zspecs:
        cl = list(z['clique'])
        sub = np.zeros([shape[attrs.index(a)] for a in cl], dtype=bool)
        for c in z['cells']:
            sub[tuple(c)] = True
        mask |= oracles.expand_to(attrs, shape, cl, sub.astype(float)).astype(bool) | np.zeros(shape, dtype=bool)
    return mask


@st.composite
def est_cases(draw, min_attrs=2, max_attrs=4, max_size=4, cap=256, min_m=0, max_m=5, zeros=False, iters=(1, 2, 3, 10, 50),
              solvers=('MD', 'RDA', 'IG'), totals=(1.0, 10, 1000.0, 37.5, None, None), kinds=None, allow_empty_zero=False, min_size=1, long_cycle=True,
              tiny_noise=False, tiny_units=False):
    dom = draw(gen.domains(min_attrs, max_attrs, min_size, max_size, cap=cap))
    attrs, shape = dom['attrs'], dom['shape']
    meas = draw(measurement_specs(attrs, shape, min_m, max_m, max_proj=3, max_cells=64, kinds=kinds, tiny_noise=tiny_noise)) if max_m > 0 else []
    if max_m >= 3 and len(attrs) >= 3 and draw(st.integers(0, 2)) == 0:
        meas = draw(hub_measurement_specs(attrs, shape, kinds))      # tree of pairwise projections (+ singles)
    if tiny_noise and meas and draw(st.integers(0, 9)) == 0:
        # every measurement nearly uninformative: noise scales far above the total (tiny Lipschitz constant)
        f = float(10 ** draw(st.floats(3.0, 6.0)))
        meas = [dict(m, noise=m['noise'] * f) for m in meas]
    witness = [draw(st.integers(0, s - 1)) for s in shape]
    case = {'domain': dom, 'meas': meas, 'data_seed': draw(st.integers(0, 2**31 - 1)),
            'total': draw(st.sampled_from(list(totals))), 'true_total': draw(st.sampled_from([1.0, 20.0, 500.0])),
            'solver': draw(st.sampled_from(list(solvers))), 'iters': draw(st.sampled_from(list(iters))),
            'witness': witness, 'zeros': [], 'stepsize': None,
            'elim': draw(st.sampled_from(['none', 'none', 'perm']))}
    if case['elim'] == 'perm':
        case['elim_perm'] = list(draw(st.permutations(attrs)))
    if draw(st.integers(0, 7)) == 0 and case['total'] is not None:
        # the same problem in other units: total, answers and noise scales multiplied by 1e5 (or, rarely, by 1e-8)
        u = draw(st.sampled_from([1e5, 1e5, 1e5, 1e-8])) if tiny_units else 1e5
        case['total'] = float(case['total']) * u
        case['meas'] = [dict(m, noise=m['noise'] * u) for m in case['meas']]
        case['units'] = u
    if long_cycle and draw(st.integers(0, 5)) == 0:
        # long chordless cycle of pairwise measurements (needs second-order fill-in in the junction tree)
        n = draw(st.integers(5, 6))
        names = list(draw(st.permutations(gen.NAMES[:n])))
        case['domain'] = {'attrs': names, 'shape': [2] * n}
        cyc = list(draw(st.permutations(names)))
        meas = []
        for i in range(n):
            e = [cyc[i], cyc[(i + 1) % n]]
            meas.append({'proj': e if draw(st.booleans()) else e[::-1],
                         'q': {'kind': draw(st.sampled_from(['none', 'identity', 'dense'])), 'rows': 4, 'seed': draw(st.integers(0, 10**6)), 'c': 2.0},
                         'noise': draw(st.sampled_from([1.0, 0.5, 2.0])), 'yseed': draw(st.integers(0, 10**6)), 'noise_mult': 3.0})
        case['meas'] = meas
        case['witness'] = [0] * n
        case['elim'] = 'none'
        attrs, shape, witness = names, [2] * n, case['witness']
    if zeros and draw(st.booleans()):
        case['zeros'] = draw(zero_specs(attrs, shape, witness, allow_empty_zero))
    if case['solver'] == 'MD' and draw(st.integers(0, 4)) == 0:
        case['stepsize'] = draw(st.sampled_from([0.1, 1.0]))
    if case.get('units') == 1e-8:
        # tiny units are not combined with the tiny-noise regime or a caller-chosen constant step: with sigma ~1e-12 the
        # smoothness constant is 1e24, a constant step of 0.1 is far outside what the caller may choose, and one step
        # puts the parameters at 1e17, beyond what float64 can resolve
        case['stepsize'] = None
        case['meas'] = [dict(m, noise=max(m['noise'], 0.1 * 1e-8)) for m in case['meas']]
    return case


def usable_meas(case):
    """RDA/IG call eigsh(k=1), which needs a query over >= 2 cells (ARPACK precondition) and a non-zero
    query matrix (ARPACK: 'starting vector is zero'): drop one-cell projections and all-zero queries there."""
    attrs, shape = case['domain']['attrs'], case['domain']['shape']
    sizes = dict(zip(attrs, shape))
    ms = list(case['meas'])
    if case.get('solver') in ('RDA', 'IG'):
        ms = [m for m in ms if int(np.prod([sizes[a] for a in m['proj']])) >= 2 and m['q']['kind'] != 'zero']
    return ms


def prepare(case, spelling='tuple'):
    """-> (attrs, shape, X_true, [Meas]) ; the total used to scale the data is case['total'] or case['true_total']."""
    attrs, shape = list(case['domain']['attrs']), list(case['domain']['shape'])
    tt = case['total'] if case['total'] is not None else case['true_total']
    X = true_table(case['data_seed'], shape, tt)
    return attrs, shape, X, expand(usable_meas(case), attrs, shape, X, spelling)


def make_engine(mbi, case, domain, **kw):
    elim = case.get('elim_perm') if case.get('elim') == 'perm' else None
    if case.get('warm_flag'):
        kw.setdefault('warm_start', True)
    return mbi.FactoredInference(domain, iters=case['iters'], structural_zeros=zeros_dict(case.get('zeros', [])),
                                 elim_order=elim, **kw)


def run_estimate(mbi, case, engine, meas, callback=None):
    opts = {}
    if case.get('stepsize') is not None and case['solver'] == 'MD':
        opts['stepsize'] = case['stepsize'] / max(float(case['total'] or case['true_total']), 1.0) ** 2
    return engine.estimate([m.tuple for m in meas], total=case['total'], engine=case['solver'], callback=callback, options=dict(opts))


def potentials_joint(model, attrs, shape):
    """Brute-force joint of a returned model's stored parameters.  Each factor is shifted by its largest
    finite entry first (a constant shift does not change the distribution), so the oracle stays exact even
    when the stored potentials carry a huge common offset."""
    factors = []
    for cl in model.cliques:
        f = model.potentials[cl]
        v = np.asarray(f.values, dtype=float)
        fin = v[np.isfinite(v)]
        if fin.size:
            v = v - float(np.max(fin))
        factors.append((list(f.domain.attrs), v))
    return oracles.joint(attrs, shape, factors, float(model.total))


def theta_offset(model):
    """Root-cause signature of runaway potentials: the largest, over cliques, of the smallest finite |theta|."""
    worst = 0.0
    for cl in model.cliques:
        v = np.asarray(model.potentials[cl].values, dtype=float)
        fin = np.abs(v[np.isfinite(v)])
        if fin.size:
            worst = max(worst, float(np.min(fin)))
    return worst
