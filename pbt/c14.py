"""C14 - factor algebra is addressed by attribute name, never by position."""
import itertools, math
import numpy as np
from hypothesis import strategies as st
from . import gen
from .common import Out, import_mbi

ID = 'C14'
RULE = ('Hypothesis draws a universe of 1-5 attributes (sizes 1-4, non-lexicographic order), two factors over ordered '
        'attribute subsets (arbitrary overlap for + - * logaddexp; right operand a sub-domain in any order for / += *=), '
        'values N(0,1)*scale with optional -inf where the operation documents its handling, and one operation out of '
        '~40 (binary, scalar, in-place, aggregations with list/tuple/set arguments, project, condition, expand, '
        'transpose, exp/log/copy with and without out=, constructors, CliqueVector arithmetic and combine). Oracle: naive '
        'per-assignment evaluation over itertools.product. Non-trivial = operands share some but not all attributes or '
        'list shared attributes in different relative order (binary ops), or the request order differs from the storage '
        'order (unary ops); distinct by sha1 of the case.')
BUDGET = {'quick': 24000, 'thorough': 400000}
TIME = {'quick': 100, 'thorough': 1200}

BINARY = ['add', 'sub', 'mul', 'logaddexp']
SUBDOM = ['truediv', 'iadd', 'imul', 'expand']
SCALAR = ['add_s', 'radd_s', 'mul_s', 'rmul_s', 'sub_s', 'div_s', 'iadd_s', 'imul_s']
UNARY = ['sum', 'logsumexp', 'max', 'sum_all', 'logsumexp_all', 'max_all', 'project_sum', 'project_lse', 'condition',
         'transpose', 'copy', 'copy_out', 'exp', 'exp_out', 'log', 'log_out', 'datavector', 'ctor']
CV = ['cv_add', 'cv_sub', 'cv_mul', 'cv_exp', 'cv_log', 'cv_dot', 'cv_size', 'cv_combine', 'cv_add_s']
OPS = BINARY + SUBDOM + SCALAR + UNARY + CV


@st.composite
def cases(draw, tier='quick'):
    uni = draw(gen.domains(1, 5 if tier == 'quick' else 6, 1, 4 if tier == 'quick' else 5, cap=1024 if tier == 'quick' else 4096))
    attrs = uni['attrs']
    op = draw(st.sampled_from(OPS))
    a = draw(gen.ordered_subset(attrs, 1, len(attrs)))
    if op in SUBDOM:
        if op == 'expand':
            b = draw(gen.ordered_subset(a, 1, len(a)))   # b expands to a
        else:
            b = draw(gen.ordered_subset(a, 1, len(a)))
    else:
        b = draw(gen.ordered_subset(attrs, 1, len(attrs)))
    case = {'universe': uni, 'op': op, 'a': a, 'b': b,
            'va': draw(gen.value_spec), 'vb': draw(gen.value_spec),
            'ninf_a': draw(st.sampled_from([0, 0, 0.3])), 'ninf_b': draw(st.sampled_from([0, 0, 0.3])),
            'sub': draw(gen.ordered_subset(a, 0, len(a))),
            'container': draw(st.sampled_from(['list', 'tuple', 'set'])),
            'ev': {x: draw(st.integers(0, uni['shape'][attrs.index(x)] - 1)) for x in draw(gen.ordered_subset(a, 0, len(a)))},
            'scalar': draw(st.sampled_from([0.0, 1.0, -1.0, 2.5, -0.3, 1e3, 7])),
            'cv': draw(st.lists(gen.ordered_subset(attrs, 1, min(3, len(attrs))), min_size=1, max_size=4)),
            'cv_other': draw(st.lists(gen.ordered_subset(attrs, 1, min(3, len(attrs))), min_size=0, max_size=4)),
            'cv_seed': draw(st.integers(0, 2**31 - 1))}
    return case


def strategy(tier):
    return cases(tier)


def _vals(spec, shape, ninf, allow_ninf, positive=False, scale_cap=None):
    spec = dict(spec)
    if scale_cap is not None:
        spec['scale'] = min(spec['scale'], scale_cap)
    v = gen.expand_values(spec, shape)
    if positive:
        v = np.abs(v) + 1e-6
    if allow_ninf and ninf > 0:
        rng = np.random.Generator(np.random.PCG64(spec['seed'] + 13))
        v = np.where(rng.random(size=tuple(shape)) < ninf, -np.inf, v)
    return v


def ref_table(res_attrs, sizes, fn):
    """Table over res_attrs with value fn(assignment dict)."""
    shape = [sizes[a] for a in res_attrs]
    T = np.empty(shape, dtype=float)
    for cell in itertools.product(*[range(s) for s in shape]):
        T[cell] = fn(dict(zip(res_attrs, cell)))
    return T


def at(attrs, vals, asg):
    return vals[tuple(asg[a] for a in attrs)]


def same(got, ref, rtol=1e-12, atol=0.0):
    got = np.asarray(got, dtype=float); ref = np.asarray(ref, dtype=float)
    if got.shape != ref.shape:
        return 'shape %s != %s' % (got.shape, ref.shape)
    if np.isnan(got).any():
        return 'NaN in result'
    inf_r = np.isinf(ref)
    if not np.array_equal(np.isinf(got), inf_r) or not np.array_equal(got[inf_r], ref[inf_r]):
        return 'infinite entries differ'
    g, r = got[~inf_r], ref[~inf_r]
    bad = np.abs(g - r) > rtol * np.abs(r) + atol
    if bad.any():
        i = int(np.argmax(bad))
        return 'value %.17g != ref %.17g' % (g[i], r[i])
    return None


def check_factor(out, tag, f, exp_attrs_set, sizes, fn, ordered=None, rtol=1e-12, atol=0.0):
    """f: resulting Factor. Compare as a function on assignments."""
    ra = list(f.domain.attrs)
    if set(ra) != set(exp_attrs_set) or len(ra) != len(set(ra)):
        return out.fail('mismatch:%s:attrs' % tag, 'result attrs %s expected set %s' % (ra, sorted(exp_attrs_set)))
    if ordered is not None and ra != list(ordered):
        return out.fail('mismatch:%s:order' % tag, 'result attrs %s expected order %s' % (ra, list(ordered)))
    if tuple(f.domain.shape) != tuple(sizes[a] for a in ra) or tuple(f.values.shape) != tuple(f.domain.shape):
        return out.fail('mismatch:%s:shape' % tag, 'shape %s/%s for attrs %s' % (f.domain.shape, f.values.shape, ra))
    ref = ref_table(ra, sizes, fn)
    why = same(f.values, ref, rtol, atol)
    if why:
        return out.fail('mismatch:%s' % tag, '%s (result attrs %s)' % (why, ra))
    return out


def lse_list(xs):
    m = max(xs)
    if m == -np.inf:
        return -np.inf
    return m + math.log(sum(math.exp(x - m) for x in xs))


def run_case(case):
    mbi = import_mbi()
    Factor, Domain, CliqueVector = mbi.Factor, mbi.Domain, mbi.CliqueVector
    out = Out()
    U = case['universe']; attrs = U['attrs']; sizes = dict(zip(attrs, U['shape']))
    op = case['op']; a = list(case['a']); b = list(case['b'])
    out.classes = ['op:' + op]
    sa = [sizes[x] for x in a]; sb = [sizes[x] for x in b]
    dom = Domain(attrs, U['shape'])
    ninf_a_ok = op in ('add', 'sub', 'logaddexp', 'iadd', 'expand', 'add_s', 'radd_s', 'sub_s', 'iadd_s', 'sum', 'logsumexp', 'max',
                       'sum_all', 'logsumexp_all', 'max_all', 'project_sum', 'project_lse', 'condition', 'transpose', 'copy',
                       'copy_out', 'exp', 'exp_out', 'datavector')
    ninf_b_ok = op in ('add', 'sub', 'logaddexp', 'iadd', 'expand')
    if op in ('sum', 'sum_all', 'project_sum') and False:
        pass
    cap = 30.0 if op in ('exp', 'exp_out', 'logaddexp', 'logsumexp', 'logsumexp_all', 'project_lse', 'cv_exp') else None
    positive_a = op in ('log', 'log_out', 'cv_log')
    va = _vals(case['va'], sa, case['ninf_a'], ninf_a_ok, positive=positive_a, scale_cap=cap)
    vb = _vals(case['vb'], sb, case['ninf_b'], ninf_b_ok, positive=(op == 'truediv'), scale_cap=cap)
    if op in ('sum', 'sum_all', 'project_sum', 'max', 'max_all'):
        pass  # sums of -inf are -inf: well defined
    if op == 'truediv':
        # zero divisors only where the numerator is zero too (the pattern Z / Z.project(S) callers rely on)
        rng = np.random.Generator(np.random.PCG64(case['vb']['seed'] + 5))
        zero = rng.random(size=tuple(sb)) < 0.25
        vb = np.where(zero, 0.0, vb)
    fa = Factor(dom.project(a), va.copy())
    fb = Factor(dom.project(b), vb.copy())
    if op == 'truediv':
        zb = Factor(dom.project(b), (vb == 0).astype(float)).expand(fa.domain).values > 0
        fa = Factor(fa.domain, np.where(zb, 0.0, fa.values)); va = fa.values.copy()
    A = lambda s: at(a, va, s)
    B = lambda s: at(b, vb, s)
    union = set(a) | set(b)
    shared = [x for x in a if x in b]
    rel_a = shared; rel_b = [x for x in b if x in a]
    c = case['scalar']
    sub = list(case['sub'])
    cont = {'list': list, 'tuple': tuple, 'set': set}[case['container']]

    if op in BINARY:
        out.nontrivial = (0 < len(shared) < len(union)) or rel_a != rel_b
        if op == 'add':
            check_factor(out, op, fa + fb, union, sizes, lambda s: A(s) + B(s))
        elif op == 'sub':
            def f(s):
                y = B(s)
                return A(s) if y == -np.inf else A(s) - y
            check_factor(out, op, fa - fb, union, sizes, f)
        elif op == 'mul':
            check_factor(out, op, fa * fb, union, sizes, lambda s: A(s) * B(s))
        elif op == 'logaddexp':
            check_factor(out, op, fa.logaddexp(fb), union, sizes, lambda s: lse_list([A(s), B(s)]), rtol=1e-12, atol=1e-13)
        if out.ok and (not np.array_equal(fa.values, va) or not np.array_equal(fb.values, vb)):
            out.fail('mutated:%s' % op, 'a pure binary operation modified an operand')
    elif op in SUBDOM:
        out.nontrivial = len(b) < len(a) or rel_a != rel_b
        if op == 'truediv':
            def f(s):
                y = B(s)
                return A(s) / y if y > 0 else 0.0
            check_factor(out, op, fa / fb, set(a), sizes, f, ordered=a)
        elif op == 'expand':
            check_factor(out, op, fb.expand(fa.domain), set(a), sizes, B, ordered=a)
        elif op in ('iadd', 'imul'):
            pure = (fa + fb) if op == 'iadd' else (fa * fb)
            keep = fa
            if op == 'iadd':
                fa += fb
                fn = lambda s: A(s) + B(s)
            else:
                fa *= fb
                fn = lambda s: A(s) * B(s)
            if fa is not keep:
                out.fail('mismatch:%s:identity' % op, 'in-place operator returned a new object')
            check_factor(out, op, fa, set(a), sizes, fn, ordered=a)
            if out.ok:
                check_factor(out, op + ':pure', pure, set(a), sizes, fn)
            if out.ok and not np.array_equal(fb.values, vb):
                out.fail('mutated:%s' % op, 'in-place operation modified its right operand')
    elif op in SCALAR:
        out.nontrivial = len(a) >= 2
        if op == 'add_s':
            check_factor(out, op, fa + c, set(a), sizes, lambda s: A(s) + c, ordered=a)
        elif op == 'radd_s':
            check_factor(out, op, c + fa, set(a), sizes, lambda s: A(s) + c, ordered=a)
        elif op == 'mul_s':
            check_factor(out, op, fa * c, set(a), sizes, lambda s: A(s) * c, ordered=a)
        elif op == 'rmul_s':
            check_factor(out, op, c * fa, set(a), sizes, lambda s: A(s) * c, ordered=a)
        elif op == 'sub_s':
            check_factor(out, op, fa - c, set(a), sizes, lambda s: A(s) - c, ordered=a)
        elif op == 'div_s':
            d = c if c != 0 else 4.0
            check_factor(out, op, fa / d, set(a), sizes, lambda s: A(s) / d, ordered=a)
        elif op == 'iadd_s':
            keep = fa; fa += c
            if fa is not keep: out.fail('mismatch:iadd_s:identity', 'new object')
            check_factor(out, op, fa, set(a), sizes, lambda s: A(s) + c, ordered=a)
        elif op == 'imul_s':
            keep = fa; fa *= c
            if fa is not keep: out.fail('mismatch:imul_s:identity', 'new object')
            check_factor(out, op, fa, set(a), sizes, lambda s: A(s) * c, ordered=a)
    elif op in UNARY:
        rest = [x for x in a if x not in sub]
        out.nontrivial = len(a) >= 2 and (sub != [x for x in a if x in sub] or 0 < len(sub) < len(a))

        def agg(fn_list, keep):
            def f(s):
                other = [x for x in a if x not in keep]
                vals = []
                for cell in itertools.product(*[range(sizes[x]) for x in other]):
                    t = dict(s); t.update(zip(other, cell))
                    vals.append(A(t))
                return fn_list(vals)
            return f
        if op in ('sum', 'logsumexp', 'max'):
            fn_list = {'sum': lambda v: float(np.sum(v)), 'logsumexp': lse_list, 'max': max}[op]
            res = getattr(fa, op)(cont(sub))
            check_factor(out, op, res, set(rest), sizes, agg(fn_list, rest), ordered=rest, rtol=1e-11, atol=1e-12 * max(1.0, case['va']['scale']))
        elif op in ('sum_all', 'logsumexp_all', 'max_all'):
            flat = [float(x) for x in va.flatten()]
            ref = {'sum_all': float(np.sum(flat)), 'logsumexp_all': lse_list(flat), 'max_all': max(flat)}[op]
            got = getattr(fa, op[:-4])()
            why = same(np.array(got), np.array(ref), 1e-11, 1e-12 * max(1.0, case['va']['scale']))
            if why: out.fail('mismatch:' + op, why)
        elif op in ('project_sum', 'project_lse'):
            which = 'sum' if op == 'project_sum' else 'logsumexp'
            fn_list = (lambda v: float(np.sum(v))) if which == 'sum' else lse_list
            arg = sub if case['container'] != 'tuple' else tuple(sub)
            res = fa.project(arg, which) if which == 'logsumexp' else (fa.project(arg) if case['scalar'] > 0 else fa.project(arg, agg='sum'))
            check_factor(out, op, res, set(sub), sizes, agg(fn_list, sub), ordered=sub, rtol=1e-11, atol=1e-12 * max(1.0, case['va']['scale']))
        elif op == 'condition':
            ev = {k: int(v) for k, v in case['ev'].items()}
            foreign = [x for x in attrs if x not in a]
            if foreign and case['cv_seed'] % 3 == 0:
                # evidence may mention attributes the factor does not have (they are simply not its business)
                ev = dict([(foreign[0], sizes[foreign[0]] - 1)] + list(ev.items()) + ([(foreign[-1], 0)] if len(foreign) > 1 else []))
                out.classes.append('foreign_evidence_keys')
            restc = [x for x in a if x not in ev]
            res = fa.condition(ev)
            def f(s):
                t = dict(s); t.update({k: v for k, v in ev.items() if k in a}); return A(t)
            check_factor(out, op, res, set(restc), sizes, f, ordered=restc)
            out.nontrivial = len(a) >= 2 and 0 < len(ev) and list(ev.keys()) != [x for x in a if x in ev]
        elif op == 'transpose':
            perm = list(case['sub']) + [x for x in a if x not in case['sub']]
            res = fa.transpose(perm if case['container'] != 'tuple' else tuple(perm))
            check_factor(out, op, res, set(a), sizes, A, ordered=perm)
            out.nontrivial = perm != a
        elif op in ('copy', 'copy_out'):
            if op == 'copy':
                res = fa.copy()
            else:
                tgt = Factor.zeros(fa.domain); res = fa.copy(out=tgt)
                if res is not tgt: out.fail('mismatch:copy_out:identity', 'copy(out=) did not return out')
            check_factor(out, op, res, set(a), sizes, A, ordered=a)
            if out.ok:
                res.values[...] = 12345.0
                if not np.array_equal(fa.values, va):
                    out.fail('mutated:copy', 'copy shares storage with the original')
        elif op in ('exp', 'exp_out'):
            if op == 'exp':
                res = fa.exp()
            else:
                tgt = Factor.zeros(fa.domain); res = fa.exp(out=tgt)
            check_factor(out, op, res, set(a), sizes, lambda s: math.exp(A(s)), ordered=a)
        elif op in ('log', 'log_out'):
            if op == 'log':
                res = fa.log()
            else:
                tgt = Factor.zeros(fa.domain); res = fa.log(out=tgt)
            check_factor(out, op, res, set(a), sizes, lambda s: math.log(A(s)), ordered=a, rtol=1e-12, atol=1e-13)
        elif op == 'datavector':
            ref = ref_table(a, sizes, A)
            g1 = fa.datavector(); g2 = fa.datavector(flatten=False)
            why = same(g1, ref.flatten()) or same(g2, ref)
            if why: out.fail('mismatch:datavector', why)
        elif op == 'ctor':
            d = dom.project(a)
            for nm, val in (('zeros', 0.0), ('ones', 1.0), ('uniform', 1.0 / max(1, int(np.prod(sa))))):
                check_factor(out, 'ctor:' + nm, getattr(Factor, nm)(d), set(a), sizes, lambda s, v=val: v, ordered=a)
            # flat values are accepted and laid out in domain order
            f2 = Factor(d, va.flatten().copy())
            check_factor(out, 'ctor:flat', f2, set(a), sizes, A, ordered=a)
            # Factor.active: 0 everywhere except -inf at the listed cells
            rng = np.random.Generator(np.random.PCG64(case['cv_seed']))
            cells = [tuple(int(rng.integers(0, s)) for s in sa) for _ in range(1 + int(rng.integers(0, 3)))]
            fz = Factor.active(d, cells)
            check_factor(out, 'ctor:active', fz, set(a), sizes,
                         lambda s: -np.inf if tuple(s[x] for x in a) in cells else 0.0, ordered=a)
    else:
        run_cv(case, out, mbi, dom, sizes)
    return out


def run_cv(case, out, mbi, dom, sizes):
    Factor, CliqueVector = mbi.Factor, mbi.CliqueVector
    op = case['op']
    rng = np.random.Generator(np.random.PCG64(case['cv_seed']))
    cls = []
    for c in case['cv']:
        if tuple(c) not in cls:
            cls.append(tuple(c))
    pos = op == 'cv_log'
    cap = 5.0 if op == 'cv_exp' else 50.0

    def mk(cl):
        v = rng.standard_normal(size=[sizes[x] for x in cl]) * cap
        if pos: v = np.abs(v) + 1e-6
        return v
    V1 = {cl: mk(cl) for cl in cls}; V2 = {cl: mk(cl) for cl in cls}
    build = ['ctor', 'ctor', 'item_assign', 'caller_dict_edited'][(case['cv_seed'] // 7) % 4]

    def mkcv(V):
        # the three ways a caller arrives at the same vector: constructor; constructor with placeholders followed by
        # item assignment; constructor, after which the caller re-uses (clears) the dict it passed in
        if build == 'item_assign':
            cv = CliqueVector({cl: Factor.zeros(dom.project(cl)) for cl in cls})
            for cl in cls:
                cv[cl] = Factor(dom.project(cl), V[cl].copy())
            return cv
        d = {cl: Factor(dom.project(cl), V[cl].copy()) for cl in cls}
        cv = CliqueVector(d)
        if build == 'caller_dict_edited':
            for cl in cls:
                d[cl] = Factor.zeros(dom.project(cl))
            d[('__other__',)] = None
        return cv
    X = mkcv(V1)
    Y = mkcv(V2)
    out.classes.append('cv_build:' + build)
    if case['cv_seed'] % 2 and op in ('cv_add', 'cv_sub', 'cv_dot'):
        # the second operand holds the same functions, stored with reversed axis order under the same keys
        Y = CliqueVector({cl: Factor(dom.project(cl), V2[cl].copy()).transpose(tuple(reversed(cl))) for cl in cls})
        out.classes.append('cv_transposed_storage')
    c = case['scalar']
    out.nontrivial = len(cls) >= 2

    def cmp(res, fn, tag):
        if set(res.keys()) != set(cls):
            return out.fail('mismatch:%s:keys' % tag, 'keys %s expected %s' % (list(res.keys()), cls))
        for cl in cls:
            check_factor(out, tag, res[cl], set(cl), sizes, lambda s, cl=cl: fn(cl, tuple(s[x] for x in cl)), ordered=list(cl), rtol=1e-12, atol=1e-13)
    if op == 'cv_add':
        cmp(X + Y, lambda cl, i: V1[cl][i] + V2[cl][i], op)
    elif op == 'cv_add_s':
        cmp(X + c, lambda cl, i: V1[cl][i] + c, op)
    elif op == 'cv_sub':
        cmp(X - Y, lambda cl, i: V1[cl][i] - V2[cl][i], op)
    elif op == 'cv_mul':
        cmp(X * c, lambda cl, i: V1[cl][i] * c, op)
        if out.ok: cmp(c * X, lambda cl, i: V1[cl][i] * c, op + ':r')
    elif op == 'cv_exp':
        cmp(X.exp(), lambda cl, i: math.exp(V1[cl][i]), op)
    elif op == 'cv_log':
        cmp(X.log(), lambda cl, i: math.log(V1[cl][i]), op)
    elif op == 'cv_dot':
        ref = sum(float(np.sum(V1[cl] * V2[cl])) for cl in cls)
        got = X.dot(Y)
        if not abs(got - ref) <= 1e-10 * (sum(float(np.sum(np.abs(V1[cl] * V2[cl]))) for cl in cls) + 1e-300):
            out.fail('mismatch:cv_dot', 'got %r ref %r' % (got, ref))
    elif op == 'cv_size':
        ref = sum(int(np.prod([sizes[x] for x in cl])) for cl in cls)
        if X.size() != ref: out.fail('mismatch:cv_size', 'got %r ref %r' % (X.size(), ref))
    elif op == 'cv_combine':
        # meaning: the sum of all factors, as a function on the universe, grows by exactly those factors of
        # `other` that are contained in some clique of self; the rest are ignored; other is unchanged.
        others = []
        for c2 in case['cv_other']:
            if tuple(c2) not in [o[0] for o in others]:
                others.append((tuple(c2), rng.standard_normal(size=[sizes[x] for x in c2])))
        O = CliqueVector({cl: Factor(dom.project(cl), v.copy()) for cl, v in others})
        attrs = list(dom.attrs)
        def total_fn(cv_vals, s):
            return sum(v[tuple(s[x] for x in cl)] for cl, v in cv_vals)
        absorbed = [(cl, v) for cl, v in others if any(set(cl) <= set(k) for k in cls)]
        X.combine(O)
        if set(X.keys()) != set(cls):
            out.fail('mismatch:cv_combine:keys', 'combine changed the key set')
        else:
            for cell in itertools.product(*[range(sizes[x]) for x in attrs]):
                s = dict(zip(attrs, cell))
                ref = total_fn(list(V1.items()), s) + total_fn(absorbed, s)
                got = sum(float(X[cl].values[tuple(s[x] for x in cl)]) for cl in cls)
                if abs(got - ref) > 1e-9 * (abs(ref) + 1):
                    out.fail('mismatch:cv_combine', 'sum of factors at %s got %r ref %r' % (s, got, ref)); break
        if out.ok:
            for cl, v in others:
                if not np.array_equal(O[cl].values, v):
                    out.fail('mutated:cv_combine', 'combine modified its argument'); break
        out.nontrivial = len(absorbed) >= 1 and len(cls) >= 2
    if out.ok and op not in ('cv_combine',):
        for cl in cls:
            yv = Y[cl].values if tuple(Y[cl].domain.attrs) == tuple(cl) else Y[cl].transpose(cl).values
            if not np.array_equal(X[cl].values, V1[cl]) or not np.array_equal(yv, V2[cl]):
                out.fail('mutated:%s' % op, 'pure CliqueVector operation modified an operand'); break
