"""C06 - private data reaches mechanism output only through the DP primitives."""
import numpy as np
from . import mech, c05
from .common import Out, import_mbi

ID = 'C06'
RULE = ('Same generator as C05 (mechanism x dataset x neighbour x parameters x numpy seed; AdaGrid thresholds aimed at an '
        'actual one-way count in a third of its cases; AIM with and without an explicit prng). The mechanism runs on D '
        "with all numpy.random normal/laplace/choice calls recorded, then on the neighbour D' with the recorded released "
        'values and selections forced. The two event sequences must agree in length, kind, call site, size and noise scale '
        '(exact float equality), probability vectors of non-selection sampling must be identical, and the two returned '
        'data frames must be identical; the returned data must conform to the input domain (attribute order, sizes, value '
        "ranges). Non-trivial = D and D' differ in a measured cell and the run contains >=1 private selection; distinct by "
        'sha1.')
BUDGET = {'quick': 640, 'thorough': 12800}
TIME = {'quick': 110, 'thorough': 1700}
ASSUMPTIONS = c05.ASSUMPTIONS


def strategy(tier):
    return mech.cases()


def run_case(case):
    import_mbi()
    out = Out()
    out.classes = ['mech:' + case['mech'], 'neighbour:' + case['neighbour']] + (['weighted_records'] if case.get('weights') else [])
    if case['mech'] == 'mwem' and case['noise'] == 'gaussian' and case['delta'] == 0:
        try:
            r = mech.coupled(case)
        except AssertionError:        # refused before anything is drawn (see C05)
            out.classes.append('delta0_gaussian_refused'); return out
    else:
        r = mech.coupled(case)
    ev, ev2 = r['events'], r['events2']
    attrs, shape = case['domain']['attrs'], case['domain']['shape']
    nsel = sum(1 for e in ev if e['kind'] == 'choice' and e['size'] is None and e['p'] is not None)
    measured_diff = any(e['kind'] != 'choice' and 'operand' in e and 'operand' in f and e['operand'].shape == f['operand'].shape
                        and np.any(e['operand'] != f['operand']) for e, f in zip(ev, ev2))
    out.nontrivial = nsel >= 1 and measured_diff
    if r.get('threshold') is not None: out.classes.append('adagrid_threshold_at_cell')
    if case.get('prng') == 'np.random': out.classes.append('aim_explicit_prng')
    for a, b in zip(ev, ev2):
        if a['kind'] != b['kind'] or a['site'] != b['site']:
            return out.fail('control_flow_differs', "random call %d is %s at %s on D but %s at %s on D'" % (a['index'], a['kind'], a['site'], b['kind'], b['site']))
        if a['kind'] in ('normal', 'laplace'):
            if a['size'] != b['size']:
                return out.fail('release_size_differs', "release %d at %s draws %d noise values on D and %d on D'" % (a['index'], a['site'], a['size'], b['size']))
            if 'operand' in a and a.get('noise_values', a['operand'].size) < a['operand'].size:
                return out.fail('not_a_dp_primitive', 'release %d at %s adds %d independent noise value(s) to %d statistics (exact contrasts reach the output)' % (a['index'], a['site'], a['noise_values'], a['operand'].size))
            if a['scale'] != b['scale']:
                return out.fail('noise_scale_differs', "release %d at %s uses scale %r on D and %r on D'" % (a['index'], a['site'], a['scale'], b['scale']))
        else:
            if a['n'] != b['n'] or a['size'] != b['size']:
                return out.fail('sampling_shape_differs', "choice %d at %s: (n=%s,size=%s) on D, (n=%s,size=%s) on D'" % (a['index'], a['site'], a['n'], a['size'], b['n'], b['size']))
            if a['size'] is not None and a['p'] is not None and b['p'] is not None and not np.array_equal(a['p'], b['p']):
                return out.fail('post_processing_differs', "sampling at %s uses different probabilities on D and D' although all releases and selections were identical" % a['site'])
    if len(ev) != len(ev2):
        return out.fail('control_flow_differs', "%d random calls on D, %d on D'" % (len(ev), len(ev2)))
    s1, s2 = r['synth'], r['synth2']
    for s in (s1, s2):
        if tuple(s.domain.attrs) != tuple(attrs) or tuple(s.domain.shape) != tuple(shape) or list(s.df.columns) != list(attrs):
            return out.fail('domain_mismatch', 'returned data has domain %s, input domain is %s' % (s.domain, dict(zip(attrs, shape))))
        v = s.df.values
        if v.size and (v.min() < 0 or np.any(v.max(axis=0) >= np.array(shape)) or not np.all(v == np.round(v))):
            return out.fail('domain_mismatch', 'returned data has values outside the attribute ranges')
    if not s1.df.reset_index(drop=True).equals(s2.df.reset_index(drop=True)):
        return out.fail('output_differs', "identical releases and selections, yet the synthetic data differ between D and D' (%d vs %d rows)" % (s1.df.shape[0], s2.df.shape[0]))
    return out


KNOWN = {'aim_few_rounds': c05._aim_few_rounds}
