"""C18 - approximate (local) estimation is valid, and exact when nothing is relaxed."""
import itertools
import numpy as np
from hypothesis import strategies as st
from . import gen, oracles, inf
from .common import Out, import_mbi

ID = 'C18'
RULE = ('Hypothesis draws (mode valid) a domain (2-4 attrs, sizes 1-4), 1-4 measurements with explicit queries '
        '(identity/dense/prefix/sparse/scaled/total) and tuple projections (overlapping, nested, duplicated), total given '
        'or omitted, marginal oracle in {convex, approx, pairwise}, iters in {0,1,2,3,5,20,100,300}, inner_iters in {1,3}: '
        'estimate must return; every measured clique table finite, >=0, sums to model.total; loss recomputed from those '
        'tables <= loss of uniform tables; convex oracle: primal feasibility < 1; a quarter of the valid cases declare structural zeros (a few cells or a whole attribute value): completion, validity and feasibility only (the uniform table is no feasible start there). (mode exact) pairwise-disjoint distinct '
        'measured cliques: after iteration escalation (1000, 4000, 16000) the loss must reach the certified simplex-QP optimum '
        '(plateau rule as C03). Non-trivial = overlapping cliques (valid) / >=2 disjoint cliques with non-identity Q or '
        'unequal noise (exact); distinct by sha1.')
BUDGET = {'quick': 320, 'thorough': 9600}
TIME = {'quick': 110, 'thorough': 1700}
KINDS = ['identity', 'identity', 'sparse_eye', 'dense', 'prefix', 'sparse_prefix', 'scaled', 'total']


@st.composite
def cases(draw, tier='quick'):
    mode = draw(st.sampled_from(['valid', 'valid', 'valid', 'valid', 'nested3', 'exact']))
    dom = draw(gen.domains(2, 4, 1 if mode == 'valid' else 2, 4, cap=256)) if mode != 'nested3' else draw(gen.domains(5, 5, 2, 3, cap=243))
    attrs, shape = dom['attrs'], dom['shape']
    if mode == 'valid':
        meas = draw(inf.measurement_specs(attrs, shape, 1, 4, max_proj=draw(st.sampled_from([2, 3])), max_cells=27, kinds=KINDS))
    elif mode == 'nested3':
        # region graph with three levels where a region has two parents without a common ancestor: (a,b,d),(a,b,e),(b,c)
        a, b, c, d, e = list(draw(st.permutations(attrs)))
        meas = []
        triples = draw(st.sampled_from([([a, b, d], [a, b, e], [b, c]), ([a, b, c], [b, c, d], [c, d, e]), ([a, b, c], [b, c, d], [a, c, e])]))
        for proj in triples:
            proj = list(draw(st.permutations(proj)))
            meas.append({'proj': proj, 'q': {'kind': 'identity', 'rows': 1, 'seed': 0, 'c': 1.0}, 'noise': draw(st.sampled_from([1.0, 5.0, 10.0])),
                         'yseed': draw(st.integers(0, 2**31 - 1)), 'noise_mult': draw(st.sampled_from([1.0, 3.0]))})
    else:
        perm = list(draw(st.permutations(attrs)))
        meas, i = [], 0
        while i < len(perm):
            k = draw(st.integers(1, min(2, len(perm) - i)))
            proj = perm[i:i + k]; i += k
            if draw(st.integers(0, 4)) == 0 and meas:
                continue
            for _ in range(draw(st.integers(1, 2))):
                meas.append({'proj': proj, 'q': draw(inf.q_specs(KINDS)), 'noise': draw(st.sampled_from([1.0, 0.3, 3.0])),
                             'yseed': draw(st.integers(0, 2**31 - 1)), 'noise_mult': draw(st.sampled_from([0.0, 1.0, 3.0]))})
    if mode == 'nested3':
        return {'mode': 'valid', 'domain': dom, 'meas': meas, 'data_seed': draw(st.integers(0, 2**31 - 1)),
                'total': draw(st.sampled_from([100.0, 1000.0])), 'true_total': 1000.0, 'oracle': draw(st.sampled_from(['convex', 'convex', 'approx'])),
                'iters': draw(st.sampled_from([20, 100, 300])), 'inner_iters': draw(st.sampled_from([1, 3]))}
    return {'mode': mode, 'domain': dom, 'meas': meas, 'data_seed': draw(st.integers(0, 2**31 - 1)),
            'total': draw(st.sampled_from([1.0, 10, 100.0, 1000.0, None])) if mode == 'valid' else draw(st.sampled_from([1.0, 10, 100.0, None])), 'true_total': draw(st.sampled_from([1.0, 20.0, 500.0])),
            'oracle': draw(st.sampled_from(['convex', 'approx', 'pairwise'])),
            'iters': draw(st.sampled_from([0, 1, 2, 3, 5, 20, 100, 300])), 'inner_iters': draw(st.sampled_from([1, 3])),
            'prior_call': draw(st.integers(0, 2)) == 0,
            # structural zeros (constructor argument): a few impossible cells / one impossible value of an attribute
            'zeros': (draw(zero_regime(attrs, shape)) if mode == 'valid' and draw(st.integers(0, 3)) == 0 else [])}


@st.composite
def zero_regime(draw, attrs, shape):
    if draw(st.booleans()):
        return draw(inf.zero_specs(attrs, shape, [0] * len(attrs)))
    cand = [i for i, s_ in enumerate(shape) if s_ >= 2]
    if not cand:
        return []
    i = draw(st.sampled_from(cand))
    others = [a for a in attrs if a != attrs[i]]
    cl = [attrs[i]] + (draw(gen.ordered_subset(others, 0, min(2, len(others)))) if others else [])
    cl = list(draw(st.permutations(cl)))
    v = draw(st.integers(1, shape[i] - 1))
    dims = [shape[attrs.index(a)] for a in cl]
    cells = [list(c) for c in itertools.product(*[range(d) for d in dims]) if c[cl.index(attrs[i])] == v]
    return [{'clique': cl, 'cells': cells}]


def strategy(tier):
    return cases(tier)


def build(case):
    attrs, shape = list(case['domain']['attrs']), list(case['domain']['shape'])
    tt = case['total'] if case['total'] is not None else case['true_total']
    X = inf.true_table(case['data_seed'], shape, tt)
    meas = inf.expand(case['meas'], attrs, shape, X)
    from scipy import sparse
    ms = []
    for m in meas:
        Q = m.Qobj if m.Qobj is not None else np.eye(m.Qd.shape[1])
        ms.append((Q, m.y.copy(), m.noise, tuple(m.proj)))
    return attrs, shape, meas, ms


def clique_loss(out, model, meas):
    tot = float(model.total)
    tables = {}
    for m in meas:
        cl = tuple(m.proj)
        f = model.project(cl)
        v = np.asarray(f.values, dtype=float)
        if tuple(f.domain.attrs) != cl:
            out.fail('mismatch:axes', 'project(%s) returned axes %s' % (cl, f.domain.attrs)); return None
        if not np.all(np.isfinite(v)):
            out.fail('invalid:nonfinite', 'table of measured clique %s has non-finite entries' % (cl,)); return None
        if v.min() < 0:
            out.fail('invalid:negative', 'table of measured clique %s has entry %r' % (cl, float(v.min()))); return None
        if abs(float(v.sum()) - tot) > 1e-6 * tot:
            out.fail('invalid:sum', 'table of measured clique %s sums to %r, model.total %r' % (cl, float(v.sum()), tot)); return None
        tables[cl] = v
    # one clique measured under two spellings is one clique: the answers are transposes of each other
    for a in tables:
        for b in tables:
            if a < b and set(a) == set(b):
                d = float(np.max(np.abs(np.transpose(tables[a], [a.index(x) for x in b]) - tables[b])))
                if d > 1e-6 * tot:
                    out.fail('spelling_dependent_answer', 'project(%s) and project(%s) differ by %g (total %g)' % (a, b, d, tot)); return None
    return inf.loss_from_answers(meas, lambda proj: tables[tuple(proj)])


def run_case(case):
    mbi = import_mbi()
    out = Out()
    attrs, shape, meas, ms = build(case)
    domain = mbi.Domain(attrs, shape)
    out.classes = ['mode:' + case['mode'], 'oracle:' + case['oracle']]
    projs = [set(m.proj) for m in meas]
    overlap = any(a & b for i, a in enumerate(projs) for b in projs[i + 1:] if a != b)
    if case['mode'] == 'valid':
        out.classes.append('iters:%d' % case['iters'])
        zs = case.get('zeros') or []
        kw = {'structural_zeros': inf.zeros_dict(zs)} if zs else {}
        eng = mbi.LocalInference(domain, iters=case['iters'], marginal_oracle=case['oracle'], inner_iters=case['inner_iters'], **kw)
        if zs: out.classes.append('structural_zeros')
        if case.get('prior_call'):
            # the same estimator object was used before, on other answers to (a prefix of) the same queries
            prior = [(q, y[::-1].copy() * 0.5, nz, cl) for q, y, nz, cl in ms[:max(1, len(ms) - 1)]]
            eng.estimate(prior, total=case['total'])
            out.classes.append('prior_call_on_same_engine')
        model = eng.estimate(ms, total=case['total'])
        L = clique_loss(out, model, meas)
        if not out.ok: return out
        tot = float(model.total)
        Lu = inf.loss_from_answers(meas, lambda proj: np.full([shape[attrs.index(a)] for a in proj], tot / np.prod([shape[attrs.index(a)] for a in proj])))
        # with structural zeros the uniform table is not a feasible start any more: validity and feasibility only
        if not zs and L > Lu * (1 + 1e-6) + inf.loss_floor(meas, tot):
            return out.fail('worse_than_uniform', 'loss %r of the returned tables exceeds the loss %r of uniform tables (oracle %s, iters %d)' % (L, Lu, case['oracle'], case['iters']))
        if case['oracle'] == 'convex':
            pf = model.primal_feasibility(model.marginals)
            if not pf < 1.0 and zs:
                # root-cause signature of F25: with -inf potentials the oracle is stationary at tables that disagree
                mu_ = model.marginals
                for _ in range(5):
                    mu_ = model.belief_propagation(model.potentials)
                if abs(float(model.primal_feasibility(mu_)) - float(pf)) <= 1e-9 * max(1.0, float(pf)):
                    out.extra['stationary_infeasible_with_zeros'] = True
            if not pf < 1.0:
                return out.fail('infeasible', 'primal_feasibility of the returned marginals is %r (the estimator enforces < 1.0)' % pf)
            # independent view of the same guarantee: the estimator enforces an average L1 disagreement < 1 over its
            # parent->child edges, which are a subset of the cover pairs of the region poset and connect every region to
            # all its super-regions; so no cover pair can disagree by more than the number of cover pairs.
            keys = list(model.marginals.keys())
            cover = [(p_, r_) for p_ in keys for r_ in keys if set(r_) < set(p_) and not any(set(r_) < set(m_) < set(p_) for m_ in keys)]
            worst, wp = 0.0, None
            for p_, r_ in cover:
                fp, fr = model.marginals[p_], model.marginals[r_]
                d = float(np.abs(oracles.marg(np.asarray(fp.values, float), list(fp.domain.attrs), list(fr.domain.attrs)) - np.asarray(fr.values, float)).sum())
                if d > worst: worst, wp = d, (p_, r_)
            if cover and worst > float(len(cover)) + 1e-9:
                return out.fail('inconsistent_tables', 'tables %s and %s disagree by %.4g in L1 (total %g); the enforced feasibility tolerance allows at most %d' % (wp[0], wp[1], worst, tot, len(cover)))
            if len(cover) >= 3: out.classes.append('cover_pairs>=3')
        out.nontrivial = overlap
        if overlap: out.classes.append('overlapping')
        return out
    # ---- exactness on disjoint cliques
    A, b = inf.stacked(meas, attrs, shape)
    excess = []
    for T in (1000, 4000, 16000):
        eng = mbi.LocalInference(domain, iters=T, marginal_oracle=case['oracle'], inner_iters=case['inner_iters'])
        if case.get('prior_call'):
            eng.iters = 3
            eng.estimate([(q, y[::-1].copy() * 0.5, nz, cl) for q, y, nz, cl in ms[:max(1, len(ms) - 1)]], total=case['total'])
            eng.iters = T
        model = eng.estimate(ms, total=case['total'])
        tot = float(model.total)
        if not excess:
            p, f_hi, gap = oracles.simplex_qp(A, b, tot)
            n = A.shape[1]
            f_unif = 0.5 * float(np.sum((A @ np.full(n, tot / n) - b) ** 2))
            if not gap <= 1e-9 * (f_unif + 1.0):
                out.inconclusive = True; return out
        L = clique_loss(out, model, meas)
        if not out.ok: return out
        if L < (f_hi - gap) - 1e-6 * (f_unif + 1.0):
            return out.fail('below_optimum', 'loss %r below the certified minimum %r' % (L, f_hi - gap))
        denom = f_unif - f_hi
        floor = inf.loss_floor(meas, tot)
        if denom <= 1e-3 * f_unif or denom <= 1e3 * floor:
            e = 0.0 if L - f_hi <= 1e-6 * f_unif + 1e3 * floor else (L - f_hi) / max(denom, 1e-300)
        else:
            e = (L - f_hi) / denom
        if L - f_hi <= 1e-4:
            e = min(e, 0.0) if e < 0 else 0.0     # within 1e-4 (in units of noise-normalised squared error) of the optimum: attained
        excess.append(e)
        if e <= 1e-3: break
    if excess[-1] > 1e-3:
        if len(excess) >= 2 and excess[-1] > excess[-2] / 2:
            # root-cause signature of F23 (fixed-step mirror descent caught in a 2-cycle): one more iteration gives a
            # clearly different answer with the same loss; a run that converged to a wrong fixed point does not do that
            eng = mbi.LocalInference(domain, iters=4001, marginal_oracle=case['oracle'], inner_iters=case['inner_iters'])
            eng2 = mbi.LocalInference(domain, iters=4000, marginal_oracle=case['oracle'], inner_iters=case['inner_iters'])
            ma, mb = eng.estimate(ms, total=case['total']), eng2.estimate(ms, total=case['total'])
            o2 = Out()
            la, lb = clique_loss(o2, ma, meas), clique_loss(o2, mb, meas)
            if o2.ok:
                diff = max(float(np.max(np.abs(ma.project(tuple(m.proj)).values - mb.project(tuple(m.proj)).values))) for m in meas)
                if diff > 1e-2 * float(ma.total) and abs(la - lb) <= 1e-3 * max(la, lb):
                    out.extra['two_cycle'] = True
            return out.fail('plateau_above_optimum', 'oracle %s on disjoint cliques %s: relative excess over the certified optimum %s at iterations [1000, 4000, 16000]' % (
                case['oracle'], [tuple(m.proj) for m in meas], ['%.3g' % x for x in excess]))
        out.inconclusive = True
    uniq = set(tuple(sorted(p)) for p in projs)
    out.nontrivial = len(uniq) >= 2 and (any(not np.array_equal(m.Qd, np.eye(m.Qd.shape[1])) for m in meas) or len(set(m.noise for m in meas)) > 1)
    return out


def _two_cycle(case, outc):
    return bool(outc.extra.get('two_cycle')) and case.get('mode') == 'exact'


def _zeros_convex(case, outc):
    return bool(outc.extra.get('stationary_infeasible_with_zeros')) and bool(case.get('zeros')) and case.get('oracle') == 'convex'


KNOWN = {'two_cycle': _two_cycle, 'zeros_convex_stationary': _zeros_convex}
