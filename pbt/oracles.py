"""Independent reference implementations.  Nothing in this file imports or calls mbi."""
import itertools, math
import numpy as np


# ----------------------------------------------------------------------------- brute-force joint

def lse(a):
    """max-shifted log-sum-exp of a whole array; -inf if all entries are -inf."""
    a = np.asarray(a, dtype=float)
    m = np.max(a)
    if not np.isfinite(m):
        return m
    return m + math.log(np.sum(np.exp(a - m)))


def expand_to(attrs, shape, f_attrs, f_values):
    """Broadcast a table over f_attrs (any order) to the full (attrs, shape) layout, own axis bookkeeping."""
    f_values = np.asarray(f_values, dtype=float)
    idx = [attrs.index(a) for a in f_attrs]
    # permute the factor's axes into increasing domain position
    order = sorted(range(len(f_attrs)), key=lambda i: idx[i])
    v = np.transpose(f_values, order) if len(order) > 0 else f_values
    full = [1] * len(attrs)
    for i in order:
        full[idx[i]] = f_values.shape[i]
    return v.reshape(full)


def log_joint(attrs, shape, factors):
    """factors: list of (attr tuple, ndarray of log-values).  Returns the un-normalised log joint."""
    lj = np.zeros(shape, dtype=float)
    for fa, fv in factors:
        lj = lj + expand_to(list(attrs), shape, list(fa), fv)
    return lj


def joint(attrs, shape, factors, total):
    lj = log_joint(attrs, shape, factors)
    z = lse(lj)
    return np.exp(lj - z) * total, z


def marg(P, attrs, want):
    """Marginal of table P (axes = attrs) on `want`, axes in the requested order."""
    attrs = list(attrs)
    want = list(want)
    drop = tuple(i for i, a in enumerate(attrs) if a not in want)
    M = P.sum(axis=drop) if drop else P
    kept = [a for a in attrs if a in want]
    perm = [kept.index(a) for a in want]
    return np.transpose(M, perm) if len(perm) > 0 else M


def marg_matrix(attrs, shape, want):
    """Dense 0/1 matrix M with  M @ P.flatten() == marg(P, attrs, want).flatten()."""
    n = int(np.prod(shape)) if len(shape) else 1
    wshape = [shape[list(attrs).index(a)] for a in want]
    m = int(np.prod(wshape)) if len(wshape) else 1
    M = np.zeros((m, n))
    pos = [list(attrs).index(a) for a in want]
    for j, cell in enumerate(itertools.product(*[range(s) for s in shape])):
        sub = tuple(cell[p] for p in pos)
        i = int(np.ravel_multi_index(sub, wshape)) if len(wshape) else 0
        M[i, j] = 1.0
    return M


def close(got, ref, rtol, atol):
    got = np.asarray(got, dtype=float); ref = np.asarray(ref, dtype=float)
    if got.shape != ref.shape:
        return False, 'shape %s != %s' % (got.shape, ref.shape)
    if not np.all(np.isfinite(got)):
        return False, 'non-finite values in result'
    err = np.abs(got - ref) - (rtol * np.abs(ref) + atol)
    if np.any(err > 0):
        i = np.unravel_index(np.argmax(err), err.shape) if err.ndim else ()
        return False, 'cell %s got %.17g ref %.17g' % (i, got[i], ref[i])
    return True, ''


# ----------------------------------------------------------------------------- simplex QP with certificate

def proj_simplex(v, total):
    """Euclidean projection of v onto {p >= 0, sum p = total} (sort-based, exact)."""
    n = v.size
    u = np.sort(v)[::-1]
    css = np.cumsum(u) - total
    ks = np.arange(1, n + 1)
    cond = u - css / ks > 0
    k = ks[cond][-1]
    tau = css[cond][-1] / k
    return np.maximum(v - tau, 0.0)


def simplex_qp(A, b, total, iters=20000, tol=1e-10):
    """min 1/2 ||A p - b||^2  over the scaled simplex.  Returns (p, f(p), gap) with the Frank-Wolfe
    duality gap  gap >= f(p) - f*  (a certificate)."""
    A = np.asarray(A, dtype=float); b = np.asarray(b, dtype=float)
    n = A.shape[1]
    H = A.T @ A
    c = A.T @ b
    L = max(np.linalg.eigvalsh(H)[-1], 1e-300)
    f = lambda p: 0.5 * float(np.sum((A @ p - b) ** 2))
    p = np.full(n, total / n)
    y = p.copy(); t = 1.0
    funi = f(p)
    best = (p, funi, np.inf)
    for k in range(iters):
        g = H @ y - c
        pn = proj_simplex(y - g / L, total)
        tn = 0.5 * (1 + math.sqrt(1 + 4 * t * t))
        y = pn + ((t - 1) / tn) * (pn - p)
        # adaptive restart
        if np.dot(g, pn - p) > 0:
            y = pn.copy(); tn = 1.0
        p, t = pn, tn
        if k % 50 == 49 or k == iters - 1:
            gp = H @ p - c
            gap = float(np.dot(gp, p) - total * np.min(gp))
            fp = f(p)
            if gap < best[2]:
                best = (p.copy(), fp, gap)
            if gap <= tol * (funi + 1.0):
                break
    return best


# ----------------------------------------------------------------------------- softmax reference

def ref_softmax(logw):
    w = np.asarray(logw, dtype=np.longdouble)
    m = np.max(w)
    e = np.exp(w - m)
    return np.asarray(e / np.sum(e), dtype=np.longdouble)


# ----------------------------------------------------------------------------- zCDP conversions (CKS20 Prop 7 / Steinke)

def _log_bound(alpha_m1, rho, eps):
    """log of  exp((a-1)(a rho - eps) + a log(1-1/a)) / (a-1)   as a function of x = a-1 > 0."""
    x = alpha_m1
    a = 1.0 + x
    # a*log1p(-1/a) = a*log(x/a) = a*(log x - log a)
    return x * (a * rho - eps) + a * (math.log(x) - math.log1p(x)) - math.log(x)


def ref_cdp_delta(rho, eps):
    """min over alpha>1 of the CKS20 bound, clipped at 1.  Independent 1-D minimisation:
    dense log grid + golden section around the best grid cell.  Returns (delta, alpha_star)."""
    if rho == 0:
        return 0.0, float('inf')
    xs = np.exp(np.linspace(math.log(1e-12), math.log(1e9), 2101))
    vals = np.array([_log_bound(x, rho, eps) for x in xs])
    i = int(np.argmin(vals))
    lo = xs[max(i - 1, 0)]; hi = xs[min(i + 1, len(xs) - 1)]
    # golden section in log x
    a, b = math.log(lo), math.log(hi)
    gr = (math.sqrt(5) - 1) / 2
    c = b - gr * (b - a); d = a + gr * (b - a)
    fc = _log_bound(math.exp(c), rho, eps); fd = _log_bound(math.exp(d), rho, eps)
    for _ in range(200):
        if fc < fd:
            b, d, fd = d, c, fc
            c = b - gr * (b - a); fc = _log_bound(math.exp(c), rho, eps)
        else:
            a, c, fc = c, d, fd
            d = a + gr * (b - a); fd = _log_bound(math.exp(d), rho, eps)
    x = math.exp((a + b) / 2)
    v = min(_log_bound(x, rho, eps), vals[i])
    return (min(math.exp(v), 1.0) if v < 700 else 1.0), 1.0 + x


def gauss_delta_exact(rho, eps):
    """Exact delta of the Gaussian mechanism with rho = 1/(2 sigma^2), sensitivity 1 (Balle-Wang 2018)."""
    from scipy.special import log_ndtr
    mu = math.sqrt(2.0 * rho)          # = 1/sigma
    a = log_ndtr(mu / 2.0 - eps / mu)
    b = eps + log_ndtr(-mu / 2.0 - eps / mu)
    # Phi(a') - e^eps Phi(b')
    if b == -np.inf:
        return math.exp(a)
    d = math.exp(a) - math.exp(b) if a < 700 else float('inf')
    return max(d, 0.0)


# ----------------------------------------------------------------------------- convexified region free energy

def region_closure(cliques):
    """All distinct attribute sets obtained from the cliques by repeated non-empty intersection."""
    regs = set(frozenset(c) for c in cliques)
    changed = True
    while changed:
        changed = False
        for a, b in itertools.combinations(list(regs), 2):
            z = a & b
            if z and z not in regs:
                regs.add(z); changed = True
    return regs


def convex_free_energy(attrs, sizes, cliques, theta):
    """max  sum_r <theta_r, b_r> + sum_r H(b_r)   s.t.  b_r normalised and b_p marginalises to b_r for every r < p.
    theta: {frozenset: (attr list, ndarray)} for any subset of the regions.  Solved through its smooth dual with
    L-BFGS/BFGS.  Returns ({frozenset: (attr list, belief ndarray)}, dual gradient norm, primal objective)."""
    from scipy.optimize import minimize
    regs = sorted(region_closure(cliques), key=lambda s: (len(s), sorted(s)))
    order = {r: [a for a in attrs if a in r] for r in regs}          # own canonical layout: domain order
    shp = {r: [sizes[a] for a in order[r]] for r in regs}
    th = {}
    for r in regs:
        t = np.zeros(shp[r])
        if r in theta:
            fa, fv = theta[r]
            t = t + expand_to(order[r], shp[r], list(fa), np.asarray(fv, dtype=float))
        th[r] = t
    # Hasse (cover) edges p -> r
    edges = [(p, r) for p in regs for r in regs if r < p and not any(r < m and m < p for m in regs)]
    offs, n = {}, 0
    for e in edges:
        offs[e] = n; n += int(np.prod(shp[e[1]]))

    def beliefs(lam):
        B, val = {}, 0.0
        for r in regs:
            a = th[r].copy()
            for (p, c) in edges:
                if c == r:
                    a = a + lam[offs[p, c]:offs[p, c] + a.size].reshape(shp[r])
                if p == r:
                    l = lam[offs[p, c]:offs[p, c] + int(np.prod(shp[c]))].reshape(shp[c])
                    a = a - expand_to(order[r], shp[r], order[c], l)
            z = lse(a)
            val += z
            B[r] = np.exp(a - z)
        return B, val

    def fg(lam):
        B, val = beliefs(lam)
        g = np.zeros(n)
        for (p, c) in edges:
            diff = B[c] - marg(B[p], order[p], order[c])
            g[offs[p, c]:offs[p, c] + diff.size] = diff.flatten()
        return val, g

    if n == 0:
        B, val = beliefs(np.zeros(0))
        gn = 0.0
    else:
        res = minimize(fg, np.zeros(n), jac=True, method='L-BFGS-B', options={'maxiter': 5000, 'ftol': 1e-16, 'gtol': 1e-11, 'maxcor': 30})
        res = minimize(fg, res.x, jac=True, method='BFGS', options={'maxiter': 2000, 'gtol': 1e-11})
        B, val = beliefs(res.x)
        gn = float(np.max(np.abs(fg(res.x)[1])))
    prim = 0.0
    for r in regs:
        b = B[r]
        prim += float(np.sum(th[r] * b)) - float(np.sum(np.where(b > 0, b * np.log(np.where(b > 0, b, 1.0)), 0.0)))
    return {r: (order[r], B[r]) for r in regs}, gn, prim
