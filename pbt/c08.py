"""C08 - the returned model is one coherent, valid distribution."""
import itertools
import numpy as np
from hypothesis import strategies as st
from . import gen, oracles, inf
from .common import Out, import_mbi

ID = 'C08'
RULE = ('Hypothesis draws a domain (2-4 attrs, sizes 1-4), 0-5 measurements (incl. the empty list, duplicates, nested, '
        'all-zero queries and measurements the uniform model already fits exactly), total known or omitted, solver in '
        '{MD,RDA,IG}, iters in {1,2,3,10,50,300}, optional structural zeros, optional constant MD step size, optional '
        'elimination order. Oracle: brute-force joint of the returned potentials: stored marginals, every project() '
        'answer over all attribute subsets (drawn orders; asked twice, the first answers overwritten in place by the caller) and datavector must equal its marginals, be finite, >=0 and sum '
        'to model.total. Non-trivial = model with >=2 cliques and both in-clique and out-of-clique tuples queried; '
        'distinct by sha1.')
BUDGET = {'quick': 3200, 'thorough': 64000}
TIME = {'quick': 110, 'thorough': 1500}


@st.composite
def cases(draw, tier='quick'):
    case = draw(inf.est_cases(min_m=0, max_m=5, zeros=True, iters=(1, 2, 3, 10, 50, 300), tiny_noise=True, tiny_units=True, max_attrs=4 if tier == 'quick' else 5, cap=256 if tier == 'quick' else 1024,
                              kinds=inf.Q_KINDS + ['zero']))
    case['special'] = draw(st.sampled_from(['none', 'none', 'none', 'fit_exact', 'all_zero_q']))
    case['order_seed'] = draw(st.integers(0, 2**31 - 1))
    case['warm_flag'] = draw(st.booleans())        # estimator configured with warm_start=True
    # ... and used before on another measurement list (whose cliques the new one need not cover)
    case['prior_meas'] = draw(inf.measurement_specs(case['domain']['attrs'], case['domain']['shape'], 1, 3, max_proj=3, max_cells=64)) if case['warm_flag'] and draw(st.booleans()) else []
    return case


def strategy(tier):
    return cases(tier)


def coherent(out, model, attrs, shape, order_seed, tag='', seen_mag=0.0):
    """The C08 predicate on a returned model; shared with C03/C10/C13."""
    tot = float(model.total)
    P, _ = inf.potentials_joint(model, attrs, shape)
    if not np.all(np.isfinite(P)):
        return out.fail('invalid:potentials' + tag, 'stored parameters do not define a finite distribution')
    # float64 resolves log-probabilities only to ~2e-16 x |theta|: the sum tolerance grows with the magnitude of the
    # stored parameters (RDA's dual iterate scales with 1/L and reaches 1e6 for nearly uninformative measurements)
    mag = max([float(np.max(np.abs(v[np.isfinite(v)]))) if np.isfinite(v).any() else 0.0
               for v in (np.asarray(model.potentials[c].values, dtype=float) for c in model.cliques)] + [0.0])
    # ... and the dual iterates handed to belief propagation *during* the run can be far larger than what is stored
    # (RDA: t^2 g / L, 3e11 for noise 1e13), which limits how exactly the averaged marginals sum to the total
    # The allowance is only granted for finite, representable iterates (<= 1e14: the generated noise scales reach 1e13);
    # iterates that overflowed (F22: 1.8e308) get none.
    if not seen_mag <= 1e14: seen_mag = 0.0
    sum_tol = 1e-6 + 1e-14 * max(mag, seen_mag)
    rt = 1e-6 + 1e-14 * max(seen_mag, mag if mag <= 1e14 else 0.0)      # (the normalising constant carries the same rounding into every clique)
    at = 1e-9 * tot
    if hasattr(model, 'marginals'):
        for cl in model.cliques:
            f = model.marginals[cl]
            ref = oracles.marg(P, attrs, list(f.domain.attrs))
            ok, why = oracles.close(f.values, ref, rt, at)
            if not ok:
                return out.fail('incoherent:marginals_vs_potentials' + tag, 'stored marginal on %s differs from the marginal implied by the stored potentials: %s' % (cl, why))
    rng = np.random.Generator(np.random.PCG64(order_seed))
    inq = outq = 0
    tag0 = tag
    for rep, r in [(rep, r) for rep in (0, 1) for r in range(0, len(attrs) + 1)]:
        # second pass: every answer of the first pass was overwritten by the caller (below); the model must not notice
        tag = tag0 if rep == 0 else tag0 + ':after_caller_edit'
        for sub in itertools.combinations(attrs, r):
            want = list(rng.permutation(list(sub))) if r > 1 else list(sub)
            want = [str(a) for a in want]
            f = model.project(tuple(want) if r % 2 else list(want))
            if tuple(f.domain.attrs) != tuple(want):
                return out.fail('incoherent:axes' + tag, 'project(%s) returned axes %s' % (want, f.domain.attrs))
            v = np.asarray(f.values, dtype=float)
            if not np.all(np.isfinite(v)):
                return out.fail('invalid:nonfinite' + tag, 'project(%s) has non-finite entries' % (want,))
            if np.min(v) < -1e-9 * tot:
                return out.fail('invalid:negative' + tag, 'project(%s) has a negative entry %r' % (want, float(np.min(v))))
            if abs(float(v.sum()) - tot) > sum_tol * tot:
                return out.fail('invalid:sum' + tag, 'project(%s) sums to %r, model.total = %r' % (want, float(v.sum()), tot))
            ok, why = oracles.close(v, oracles.marg(P, attrs, want), rt, at)
            if not ok:
                return out.fail('incoherent:answer_vs_joint' + tag, 'project(%s) differs from the joint of the stored parameters: %s' % (want, why))
            if rep == 0:
                if any(set(want) <= set(c) for c in model.cliques): inq += 1
                else: outq += 1
                if isinstance(f.values, np.ndarray) and f.values.ndim > 0 and f.values.flags.writeable:
                    f.values[...] = -777.0       # a caller editing the table it was handed
    dv = model.datavector(flatten=False)
    ok, why = oracles.close(dv, P, rt, at)
    if not ok:
        return out.fail('incoherent:datavector' + tag0, why)
    return inq, outq


def run_case(case):
    mbi = import_mbi()
    out = Out()
    attrs, shape, X, meas = inf.prepare(case)
    domain = mbi.Domain(attrs, shape)
    if case['special'] == 'fit_exact' and meas:
        # answers the uniform model gives exactly: loss 0 at the start (early exit of MD)
        tot = float(case['total'] if case['total'] is not None else 1.0)
        if case['total'] is not None and not case['zeros']:
            U = np.full(shape, tot / np.prod(shape))
            for m in meas:
                m.y = m.Qd @ oracles.marg(U, attrs, m.proj).flatten()
                m.tuple = (m.tuple[0], m.y.copy(), m.tuple[2], m.tuple[3])
            out.classes.append('start_fits_exactly')
    if case['special'] == 'all_zero_q' and meas and case['solver'] == 'MD':
        for m in meas:
            m.Qd = np.zeros((2, m.Qd.shape[1])); m.y = np.zeros(2) + (0.0 if case['solver'] != 'MD' else 1.0)
            m.tuple = (m.Qd.copy(), m.y.copy(), m.tuple[2], m.tuple[3])
        out.classes.append('all_zero_queries')
    eng = inf.make_engine(mbi, case, domain)
    seen = [0.0]
    orig_bp = mbi.GraphicalModel.belief_propagation

    def watched_bp(self, potentials, logZ=False):
        for cl in potentials:
            v = np.asarray(potentials[cl].values, dtype=float)
            v = v[np.isfinite(v)]
            if v.size: seen[0] = max(seen[0], float(np.max(np.abs(v))))
        return orig_bp(self, potentials, logZ)
    mbi.GraphicalModel.belief_propagation = watched_bp      # harness-side observation of the iterates' magnitude
    try:
        if case.get('prior_meas'):
            c0 = dict(case, meas=case['prior_meas'], iters=min(case['iters'], 10))
            _, _, _, meas0 = inf.prepare(c0)
            if meas0:
                inf.run_estimate(mbi, c0, eng, meas0)
                out.classes.append('prior_call_other_cliques')
        model = inf.run_estimate(mbi, case, eng, meas)
    finally:
        mbi.GraphicalModel.belief_propagation = orig_bp
    out.extra['seen_mag'] = seen[0]
    if seen[0] >= 1e8: out.classes.append('iterates>=1e8')
    # (MD stores its last iterate, which `mag` already covers; RDA/IG store mle(averaged marginals))
    res = coherent(out, model, attrs, shape, case['order_seed'], seen_mag=seen[0] if case['solver'] != 'MD' else 0.0)
    out.extra['theta_offset'] = inf.theta_offset(model)
    out.classes += ['solver:' + case['solver'], 'iters:%d' % case['iters']]
    if case['zeros']: out.classes.append('zeros')
    if case.get('warm_flag'): out.classes.append('warm_start_flag')
    if not meas: out.classes.append('no_measurements')
    if out.ok:
        inq, outq = res
        out.nontrivial = len(model.cliques) >= 2 and inq > 0 and outq > 0
    else:
        out.nontrivial = True
    return out


# ---- known-finding predicates -------------------------------------------------------------

def _md_stalled(case, outc):
    """F14: mirror descent with line search on an input where it cannot make progress for many iterations."""
    if case.get('solver') != 'MD' or case.get('stepsize') is not None:
        return False
    # ... or, when the optimum lies on the boundary (answers infeasible for the total in use), every doubled step is
    # accepted and the parameters themselves run away (>= 1e14 after >= 10 iterations; gradients here are <= 1e10)
    return outc.extra.get('theta_offset', 0.0) >= 1e6 or (case.get('iters', 0) >= 10 and outc.extra.get('seen_mag', 0.0) >= 1e14)


def _md_tiny_units(case, outc):
    """F21-C08: mirror descent starts its line search at 2/total^2 and halves at most 25 times per iteration; for totals
    around 1e-8 that start is ~1e16 and the accepted step leaves parameters of ~1e18, which float64 cannot resolve."""
    return case.get('solver') == 'MD' and case.get('stepsize') is None and case.get('units') == 1e-8 and outc.extra.get('seen_mag', 0.0) >= 1e12


KNOWN = {'md_step_doubling': _md_stalled, 'md_tiny_units': _md_tiny_units}
