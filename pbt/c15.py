"""C15 - datasets vectorise to their contingency table; projection commutes; domain laws."""
import itertools, collections
import numpy as np
from hypothesis import strategies as st
from . import gen, oracles
from .common import Out, import_mbi

ID = 'C15'
RULE = ('Hypothesis draws a domain (1-5 attrs, sizes 1-6, non-lexicographic names), 0-200 records (skewed, duplicates, '
        'boundary values; column dtype int64/int32/int8/uint8/uint16), an optional weight vector (ints / non-integers / zeros), a data frame whose columns are '
        'shuffled and may include unused extra columns, a projection (ordered subset incl. full permutations; str / '
        'list / tuple spelling), a second projection applied to the first, a drop list, and a second domain for the '
        'binary domain laws; the vector is asked for again after the caller overwrote the first answer in place. Oracle: Counter-based contingency table + plain ordered-dict model of Domain. Non-trivial = '
        '>=2 attributes and (projection order != domain order or weights present or columns shuffled) with >=1 record; '
        'distinct by sha1 of the case.')
BUDGET = {'quick': 8000, 'thorough': 160000}
TIME = {'quick': 100, 'thorough': 1200}


@st.composite
def cases(draw, tier='quick'):
    dom = draw(gen.domains(1, 5 if tier == 'quick' else 7, 1, 6 if tier == 'quick' else 9, cap=4096 if tier == 'quick' else 60000))
    attrs = dom['attrs']
    n = draw(st.one_of(st.sampled_from([0, 1, 2]), st.integers(0, 200), st.integers(3, 200), st.integers(3, 60)))
    case = {
        'domain': dom, 'n': n, 'seed': draw(st.integers(0, 2**31 - 1)),
        'skew': draw(st.sampled_from([0.0, 0.5, 2.0])),
        'weights': draw(st.sampled_from(['none', 'none', 'int', 'float', 'float_zeros'])),
        'extra_cols': draw(st.integers(0, 2)),
        'dtype': draw(st.sampled_from(['int64', 'int64', 'int32', 'uint8', 'uint16', 'int8'])),
        'col_perm': draw(st.permutations(list(range(len(attrs) + 2)))),
        'proj': draw(gen.ordered_subset(attrs, 1, len(attrs))),
        'proj_full': draw(st.permutations(attrs)),
        'spelling': draw(st.sampled_from(['list', 'tuple', 'str'])),
        'drop': draw(gen.ordered_subset(attrs, 0, max(0, len(attrs) - 1))),
        'dom2': draw(gen.ordered_subset(NAMES2, 0, 5)),
        'sub2': draw(gen.ordered_subset(attrs, 0, len(attrs))),
    }
    case['proj2'] = draw(gen.ordered_subset(case['proj'], 1, len(case['proj'])))
    return case


NAMES2 = gen.NAMES[:8]


def strategy(tier):
    return cases(tier)


def make_data(case):
    attrs, shape = case['domain']['attrs'], case['domain']['shape']
    rng = np.random.Generator(np.random.PCG64(case['seed']))
    n = case['n']
    cols = {}
    for a, s in zip(attrs, shape):
        p = np.exp(-case['skew'] * rng.permutation(s).astype(float))
        p /= p.sum()
        v = rng.choice(s, size=n, p=p)
        if n > 0 and rng.random() < 0.5:
            v[rng.integers(0, n)] = s - 1   # boundary value
        cols[a] = v.astype(np.dtype(case.get('dtype', 'int64')))      # encoded categorical columns are often stored in narrow integer types
    w = None
    if case['weights'] == 'int':
        w = rng.integers(0, 5, size=n).astype(float)
    elif case['weights'] == 'float':
        w = rng.random(size=n) * 3
    elif case['weights'] == 'float_zeros':
        w = rng.random(size=n) * (rng.random(size=n) < 0.6)
    return cols, w


def contingency(attrs, shape, cols, w, n):
    T = np.zeros(shape, dtype=float)
    for r in range(n):
        cell = tuple(int(cols[a][r]) for a in attrs)
        T[cell] += 1.0 if w is None else float(w[r])
    return T


def run_case(case):
    mbi = import_mbi()
    import pandas as pd
    Domain, Dataset = mbi.Domain, mbi.Dataset
    out = Out()
    attrs, shape = list(case['domain']['attrs']), list(case['domain']['shape'])
    sizes = dict(zip(attrs, shape))
    n = case['n']
    cols, w = make_data(case)
    allcols = list(attrs) + ['zz_extra%d' % i for i in range(case['extra_cols'])]
    perm = [i for i in case['col_perm'] if i < len(allcols)]
    order = [allcols[i] for i in perm]
    frame = {}
    for c in order:
        frame[c] = cols[c] if c in cols else np.arange(n, dtype=np.int64) % 3 + 100
    df = pd.DataFrame(frame, columns=order)
    df_before = df.copy()
    domain = Domain(attrs, shape)
    data = Dataset(df, domain, None if w is None else w.copy())
    T = contingency(attrs, shape, cols, w, n)
    tol = dict(rtol=0.0, atol=0.0) if case['weights'] in ('none', 'int') else dict(rtol=1e-12, atol=1e-12)

    def cmp(tag, got, ref):
        ok, why = oracles.close(got, ref, tol['rtol'], tol['atol'])
        if not ok:
            out.fail('mismatch:' + tag, why)
        return ok

    v = data.datavector(flatten=False)
    cmp('datavector', v, T) and cmp('datavector_flat', data.datavector(), T.flatten())
    if out.ok and isinstance(v, np.ndarray) and v.ndim > 0 and v.flags.writeable:
        # callers normalise / add noise to the vector they were handed, in place; asking the same object again
        # must still give the contingency table
        v[...] = -777.0
        cmp('datavector:after_caller_edit', data.datavector(flatten=False), T) and cmp('datavector_flat:after_caller_edit', data.datavector(), T.flatten())
    if out.ok and data.records != n:
        out.fail('mismatch:records', 'records %r != %d' % (data.records, n))
    if out.ok and (tuple(data.domain.attrs) != tuple(attrs) or list(data.df.columns) != attrs):
        out.fail('mismatch:columns', 'dataset columns %s / domain %s' % (list(data.df.columns), data.domain.attrs))

    def check_proj(tag, ds, want, ref_table, ref_attrs):
        if tuple(ds.domain.attrs) != tuple(want) or tuple(ds.domain.shape) != tuple(sizes[a] for a in want):
            return out.fail('mismatch:%s:domain' % tag, 'projected domain %s expected %s' % (ds.domain, want))
        if ds.records != n:
            return out.fail('mismatch:%s:records' % tag, 'records %r' % ds.records)
        ref = oracles.marg(ref_table, ref_attrs, want)
        cmp(tag, ds.datavector(flatten=False), ref) and cmp(tag + '_flat', ds.datavector(), ref.flatten())

    # projection in any order / spelling
    proj = list(case['proj'])
    if out.ok:
        if case['spelling'] == 'str' and len(proj) == 1:
            arg = proj[0]
        elif case['spelling'] == 'tuple':
            arg = tuple(proj)
        else:
            arg = list(proj)
        p1 = data.project(arg)
        check_proj('project', p1, proj, T, attrs)
        if out.ok:
            p2 = p1.project(list(case['proj2']))
            check_proj('project2', p2, list(case['proj2']), T, attrs)
    if out.ok and len(proj) >= 2:
        # the same Dataset object asked again for the same attribute set in another order
        rev = proj[::-1]
        check_proj('project_reversed_same_object', data.project(rev), rev, T, attrs)
    if out.ok:
        full = list(case['proj_full'])
        check_proj('project_full_perm', data.project(full), full, T, attrs)
    if out.ok and len(case['drop']) < len(attrs):
        rest = [a for a in attrs if a not in case['drop']]
        check_proj('drop', data.drop(list(case['drop'])), rest, T, attrs)
    if out.ok and not df.equals(df_before):
        out.fail('mutated:df', "the caller's data frame was modified")

    # ---- domain laws against an ordered-dict model
    if out.ok:
        domain_laws(out, Domain, attrs, shape, case)

    shuffled = order[:len(attrs)] != attrs or case['extra_cols'] > 0
    out.nontrivial = len(attrs) >= 2 and n >= 1 and (proj != [a for a in attrs if a in proj] or w is not None or shuffled)
    cls = ['weights:' + case['weights'], 'dtype:' + case.get('dtype', 'int64')]
    if n == 0: cls.append('empty')
    if shuffled: cls.append('columns_shuffled_or_extra')
    if sorted(case['proj_full']) == sorted(attrs) and list(case['proj_full']) != attrs: cls.append('full_permutation')
    if 1 in shape: cls.append('size1_attr')
    out.classes = cls
    return out


def domain_laws(out, Domain, attrs, shape, case):
    sizes = dict(zip(attrs, shape))
    D = Domain(attrs, shape)
    prod = lambda xs: int(np.prod([sizes[a] for a in xs])) if len(xs) else 1

    def expect_dom(tag, got, want_attrs, size_of=None):
        so = size_of or sizes
        if tuple(got.attrs) != tuple(want_attrs) or tuple(got.shape) != tuple(so[a] for a in want_attrs):
            out.fail('mismatch:domain:' + tag, 'got %s expected attrs %s' % (got, list(want_attrs)))
        return out.ok
    sub = list(case['sub2'])
    proj = list(case['proj'])
    expect_dom('project', D.project(proj), proj) and expect_dom('project_tuple', D.project(tuple(proj)), proj) \
        and expect_dom('transpose', D.transpose(list(case['proj_full'])), list(case['proj_full'])) \
        and expect_dom('project_str', D.project(proj[0]), [proj[0]]) \
        and expect_dom('marginalize', D.marginalize(sub), [a for a in attrs if a not in sub])
    if not out.ok: return
    if list(D.invert(sub)) != [a for a in attrs if a not in sub]:
        return out.fail('mismatch:domain:invert', 'invert(%s) = %s' % (sub, D.invert(sub)))
    if tuple(D.axes(proj)) != tuple(attrs.index(a) for a in proj):
        return out.fail('mismatch:domain:axes', 'axes(%s) = %s' % (proj, D.axes(proj)))
    if tuple(D.canonical(proj)) != tuple(a for a in attrs if a in proj):
        return out.fail('mismatch:domain:canonical', 'canonical(%s) = %s' % (proj, D.canonical(proj)))
    # callers pass concatenated cliques (GraphicalModel.calculate_many_marginals: key[0] + key[1]): repeats are a set
    cat = tuple(proj) + tuple(sub)
    if tuple(D.canonical(cat)) != tuple(a for a in attrs if a in cat) or D.size(D.canonical(cat)) != prod([a for a in attrs if a in cat]):
        return out.fail('mismatch:domain:canonical_concat', 'canonical(%s) = %s' % (cat, D.canonical(cat)))
    if D.size([]) != 1 or D.size(()) != 1 or D.project([]).size() != 1 or D.size(sub) * D.size(D.invert(sub)) != prod(attrs):
        return out.fail('mismatch:domain:size_empty', 'size([]) = %r, size(()) = %r, size(S)*size(invert(S)) = %r for S = %s' % (D.size([]), D.size(()), D.size(sub) * D.size(D.invert(sub)), sub))
    if D.size() != prod(attrs) or D.size(proj) != prod(proj) or D.size(proj[0]) != sizes[proj[0]]:
        return out.fail('mismatch:domain:size', 'size %r / size(%s) %r' % (D.size(), proj, D.size(proj)))
    if len(D) != len(attrs) or list(iter(D)) != attrs or any(D[a] != sizes[a] for a in attrs):
        return out.fail('mismatch:domain:iter_len_getitem', 'len/iter/getitem disagree with the attribute list')
    if any((a in D) != (a in attrs) for a in gen.NAMES):
        return out.fail('mismatch:domain:contains_attr', '__contains__ wrong')
    for how in ('size', 'name'):
        S = D.sort(how)
        ok = sorted(S.attrs) == sorted(attrs) and all(S[a] == sizes[a] for a in attrs)
        keys = [sizes[a] for a in S.attrs] if how == 'size' else list(S.attrs)
        if not ok or keys != sorted(keys):
            return out.fail('mismatch:domain:sort_' + how, 'sort(%s) = %s' % (how, S))
    F = Domain.fromdict(collections.OrderedDict((a, sizes[a]) for a in attrs))
    if not (F == D) or not expect_dom('fromdict', F, attrs):
        return out.fail('mismatch:domain:fromdict_eq', 'fromdict(...) != Domain(...)')
    # second domain over a shared universe of names (sizes agree on shared names)
    size2 = {a: sizes.get(a, 2 + (ord(a) % 3)) for a in gen.NAMES}
    a2 = list(case['dom2'])
    D2 = Domain(a2, [size2[a] for a in a2])
    M = D.merge(D2)
    want = attrs + [a for a in a2 if a not in attrs]
    if not expect_dom('merge', M, want, size2): return
    if M.size() != int(np.prod([size2[a] for a in want])):
        return out.fail('mismatch:domain:merge_size', 'size of merge')
    if D.contains(D2) != (set(a2) <= set(attrs)) or not M.contains(D) or not M.contains(D2):
        return out.fail('mismatch:domain:contains', 'contains(%s)' % a2)
    eq_expected = (a2 == attrs) and all(size2[a] == sizes[a] for a in a2)
    if (D == D2) != eq_expected or not (D == Domain(list(attrs), list(shape))):
        return out.fail('mismatch:domain:eq', '__eq__ wrong for %s vs %s' % (D, D2))
    if len(attrs) >= 2 and (D == Domain(attrs[::-1], shape[::-1])) and attrs[::-1] != attrs:
        return out.fail('mismatch:domain:eq', 'a reordered domain compares equal')
    # product law on large (valid) domains: sizes are exact integers, far beyond 2**63
    rng = np.random.Generator(np.random.PCG64(case['seed'] + 99))
    big_attrs = ['x%02d' % i for i in range(int(rng.integers(6, 14)))]
    big_shape = [int(rng.choice([2, 7, 100, 256, 1000])) for _ in big_attrs]
    B = Domain(big_attrs, big_shape)
    exact = 1
    for v in big_shape: exact *= v
    half = len(big_attrs) // 2
    eh = 1
    for v in big_shape[:half]: eh *= v
    if B.size() != exact or B.size(big_attrs[:half]) != eh or B.project(big_attrs[:half]).size() * B.marginalize(big_attrs[:half]).size() != exact:
        return out.fail('mismatch:domain:size_large', 'size of a %d-attribute domain with shape %s is %r, exact product %r' % (len(big_attrs), big_shape, B.size(), exact))
