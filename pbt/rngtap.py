"""numpy.random interposer: records every normal / laplace / choice call made through the global
numpy.random module (which is what both `np.random.normal(...)` and `self.prng.normal(...)` with
prng=np.random resolve at call time), the operand each noise vector is added to, and supports coupled
replay of the released values / selections on a neighbouring dataset."""
import sys, os, contextlib
import numpy as np
from .common import HarnessError, REPO


class NoiseArray(np.ndarray):
    """The noise vector handed to the mechanism.  The np.add that combines it with the statistic is
    intercepted: the other operand (the un-noised released statistic) is recorded and, in replay mode,
    the recorded released value of the first execution is returned instead."""
    _tap = None
    _event = None

    def __array_ufunc__(self, ufunc, method, *inputs, **kwargs):
        tap, ev = self._tap, self._event
        plain = [np.asarray(x).view(np.ndarray) if isinstance(x, NoiseArray) else x for x in inputs]
        if ufunc is np.add and method == '__call__' and len(inputs) == 2 and tap is not None and ev is not None and not ev.get('consumed'):
            other = plain[1] if inputs[0] is self else plain[0]
            out = kwargs.get('out')
            operand = np.array(other, dtype=float).copy()
            ev['operand'] = operand.flatten()
            ev['consumed'] = True
            ev['noise_values'] = int(self.size)
            rec = tap.recorded[ev['index']] if (tap.mode == 'replay' and ev['index'] < len(tap.recorded)) else None
            if rec is not None and rec.get('released') is not None and np.size(rec['released']) == operand.size and rec['kind'] == ev['kind']:
                released = np.array(rec['released'], dtype=float).reshape(np.shape(operand))
            else:
                if tap.mode == 'replay' and tap.diverged is None:
                    tap.diverged = ev['index']        # nothing comparable was released on D at this point
                released = np.add(*plain)
            ev['released'] = np.array(released, dtype=float).flatten().copy()
            if out is not None:
                tgt = out[0]
                tgt = tgt.view(np.ndarray) if isinstance(tgt, NoiseArray) else tgt
                np.copyto(tgt, released)
                return tgt
            return np.array(released)
        if tap is not None and ev is not None and not ev.get('consumed'):
            raise HarnessError('noise vector consumed by %s.%s before being added to a statistic (call site %s)' % (ufunc.__name__, method, ev.get('site')))
        if 'out' in kwargs:
            kwargs['out'] = tuple(np.asarray(o).view(np.ndarray) if isinstance(o, NoiseArray) else o for o in kwargs['out'])
        return getattr(ufunc, method)(*plain, **kwargs)


def _site():
    f = sys._getframe(2)
    while f is not None:
        fn = os.path.abspath(f.f_code.co_filename)
        if fn.startswith(REPO + os.sep):
            return '%s:%s' % (os.path.relpath(fn, REPO), f.f_code.co_name)
        f = f.f_back
    return '?'


class Tap(object):
    def __init__(self, mode='record', recorded=None, wrap_noise=True):
        self.mode = mode
        self.recorded = recorded or []
        self.events = []
        self.wrap_noise = wrap_noise
        self.diverged = None

    # -- replacements ------------------------------------------------------------------
    def _noise(self, kind, real, loc, scale, size):
        draw = real(0.0, scale, size)
        ev = {'index': len(self.events), 'kind': kind, 'site': _site(), 'scale': float(np.max(np.abs(scale))) if np.ndim(scale) else float(scale),
              'size': int(np.size(draw)), 'loc': float(loc) if np.isscalar(loc) else None}
        self.events.append(ev)
        if self.mode == 'replay':
            self._check_alignment(ev)
        if not self.wrap_noise:
            ev['consumed'] = True
            return draw + loc
        # a scalar draw is wrapped as a 0-d array so that adding it to a vector statistic is still observed
        arr = np.asarray(draw + loc, dtype=float).view(NoiseArray)
        arr._tap = self; arr._event = ev
        return arr

    def normal(self, loc=0.0, scale=1.0, size=None):
        return self._noise('normal', self._real['normal'], loc, scale, size)

    def laplace(self, loc=0.0, scale=1.0, size=None):
        return self._noise('laplace', self._real['laplace'], loc, scale, size)

    def choice(self, a, size=None, replace=True, p=None):
        real = self._real['choice'](a, size, replace, p)      # keeps the global stream aligned
        site = _site()
        ev = {'index': len(self.events), 'kind': 'choice', 'site': site, 'n': int(a) if np.isscalar(a) else int(np.size(a)),
              'size': None if size is None else int(np.prod(size)), 'replace': bool(replace),
              'p': None if p is None else np.array(p, dtype=float).copy(), 'result': real}
        self.events.append(ev)
        if self.mode == 'replay':
            self._check_alignment(ev)
            rec = self.recorded[ev['index']] if ev['index'] < len(self.recorded) else None
            if rec is not None and rec['kind'] == 'choice' and size is None and rec['size'] is None and rec['n'] == ev['n']:
                ev['result'] = rec['result']
                return rec['result']
        return real

    def _check_alignment(self, ev):
        i = ev['index']
        if self.diverged is None and (i >= len(self.recorded) or self.recorded[i]['kind'] != ev['kind']):
            self.diverged = i

    # -- context ------------------------------------------------------------------------
    def __enter__(self):
        self._real = {'normal': np.random.normal, 'laplace': np.random.laplace, 'choice': np.random.choice}
        np.random.normal, np.random.laplace, np.random.choice = self.normal, self.laplace, self.choice
        return self

    def __exit__(self, *a):
        np.random.normal, np.random.laplace, np.random.choice = self._real['normal'], self._real['laplace'], self._real['choice']
        return False
