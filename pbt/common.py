"""Shared runner for the property-based checks.

A property module (pbt/cXX.py) exposes

    ID            'C01'
    RULE          text: how cases are generated and what makes one non-trivial
    BUDGET        {'quick': n_cases, 'thorough': n_cases}
    TIME          {'quick': seconds, 'thorough': seconds}   wall-clock cap (inconclusive beyond it)
    strategy(tier)            -> hypothesis strategy producing one JSON-serialisable case dict
    run_case(case)            -> Out
  optional
    exhaustive(tier)          -> list of JSON-able work items (enumerated sub-space)
    run_exhaustive(item)      -> (n_evaluated, n_nontrivial, [failures as (case, Out)], sample)
    machine(tier)             -> (RuleBasedStateMachine subclass, n_histories)   [stateful checks]
    KNOWN                     {predicate_name: callable(case, out) -> bool}
    ASSUMPTIONS               [str]

Everything random is a Hypothesis draw; library code that uses numpy's global RNG is
seeded from an integer drawn into the case.
"""
import os, sys, json, time, hashlib, traceback, importlib, multiprocessing, math, glob, io, contextlib

VERIF = os.path.dirname(os.path.dirname(os.path.abspath(__file__)))
REPO = os.path.abspath(os.environ.get('PPGM_REPO', '/repo'))
NPROC = int(os.environ.get('VERIF_NPROC', '16'))


def setup_paths():
    for p in (REPO, os.path.join(REPO, 'src')):
        while p in sys.path:
            sys.path.remove(p)
    sys.path[0:0] = [os.path.join(REPO, 'src'), REPO]
    if VERIF not in sys.path:
        sys.path.append(VERIF)
    deps = os.path.join(VERIF, '.deps')
    if os.path.isdir(deps) and deps not in sys.path:
        sys.path.append(deps)


def import_mbi():
    setup_paths()
    import warnings
    warnings.filterwarnings('ignore')
    import mbi
    f = os.path.abspath(mbi.__file__)
    if not f.startswith(os.path.join(REPO, 'src') + os.sep):
        raise HarnessError('mbi imported from %s, expected under %s/src' % (f, REPO))
    return mbi


class HarnessError(Exception):
    pass


class Out(object):
    """Result of one case."""
    __slots__ = ('ok', 'kind', 'where', 'detail', 'nontrivial', 'classes', 'inconclusive', 'extra')

    def __init__(self, ok=True, kind='', where='', detail='', nontrivial=False, classes=(), inconclusive=False, extra=None):
        self.ok = ok; self.kind = kind; self.where = where; self.detail = detail
        self.nontrivial = nontrivial; self.classes = list(classes); self.inconclusive = inconclusive
        self.extra = extra or {}

    def fail(self, kind, detail='', where=''):
        # keep the first failure only
        if self.ok:
            self.ok = False; self.kind = kind; self.detail = str(detail)[:2000]; self.where = where
        return self

    def bucket(self):
        return '%s|%s' % (self.kind, self.where)

    def asdict(self):
        return {'ok': self.ok, 'kind': self.kind, 'where': self.where, 'detail': self.detail,
                'nontrivial': self.nontrivial, 'classes': self.classes, 'inconclusive': self.inconclusive}


def case_hash(case):
    return hashlib.sha1(json.dumps(case, sort_keys=True, default=str).encode()).hexdigest()


def derive_seed(base, ident, shard):
    h = hashlib.sha256(('%s:%s:%s' % (base, ident, shard)).encode()).hexdigest()
    return int(h[:8], 16)


def _frame_origin(tb):
    """Walk a traceback; return ('repo'|'harness', 'file:func') of the innermost frame that
    belongs to the repository under test or to the harness."""
    last = None
    for fs in traceback.extract_tb(tb):
        if not os.path.isabs(fs.filename):
            continue            # e.g. 'numpy/random/mtrand.pyx'
        fn = os.path.abspath(fs.filename)
        if fn.startswith(REPO + os.sep):
            last = ('repo', '%s:%s' % (os.path.relpath(fn, REPO), fs.name))
        elif fn.startswith(VERIF + os.sep) and not fn.endswith(os.sep + 'rngtap.py'):   # the tap only forwards to numpy
            last = ('harness', '%s:%s' % (os.path.relpath(fn, VERIF), fs.name))
    return last or ('harness', '?')


_devnull = None


@contextlib.contextmanager
def quiet():
    """Silence the library's print() calls (dual_averaging, mechanisms)."""
    old = sys.stdout
    sys.stdout = io.StringIO()
    try:
        yield
    finally:
        sys.stdout = old


def safe_run(mod, case):
    """Run one case.  Exceptions raised by repository code are violations (the generators only
    produce inputs inside the documented preconditions); exceptions raised by harness code are
    harness errors and propagate."""
    try:
        with quiet():
            out = mod.run_case(case)
        if not isinstance(out, Out):
            raise HarnessError('run_case returned %r' % (out,))
        return out
    except HarnessError:
        raise
    except Exception as e:  # noqa
        origin, where = _frame_origin(e.__traceback__)
        if origin == 'repo':
            o = Out(nontrivial=True)
            o.fail('exception:%s' % type(e).__name__, '%s: %s' % (type(e).__name__, e), where)
            o.extra['traceback'] = traceback.format_exc()[-3000:]
            return o
        raise HarnessError('harness exception in %s: %s\n%s' % (where, e, traceback.format_exc()))


# ----------------------------------------------------------------------------- known findings

def load_known():
    p = os.path.join(VERIF, 'known_findings.json')
    if not os.path.exists(p):
        return []
    return json.load(open(p)).get('findings', [])


def match_known(mod, case, out, known):
    """Return the id of the listed known finding this failure is an instance of, or None."""
    preds = getattr(mod, 'KNOWN', {})
    for k in known:
        if k.get('property') != mod.ID or k.get('status') != 'known':
            continue
        m = k.get('match', {})
        if 'kind_prefix' in m and not out.kind.startswith(m['kind_prefix']):
            continue
        if 'kind_prefixes' in m and not any(out.kind.startswith(x) for x in m['kind_prefixes']):
            continue
        if 'where' in m and m['where'] not in out.where:
            continue
        pn = m.get('predicate')
        if pn:
            f = preds.get(pn)
            if f is None or not f(case, out):
                continue
        return k['id']
    return None


# ----------------------------------------------------------------------------- worker

def _worker(args):
    modname, tier, base_seed, shard, nshards, n_cases, deadline, only_bucket = args
    os.environ.setdefault('OMP_NUM_THREADS', '1')
    setup_paths()
    import hypothesis
    from hypothesis import given, settings, seed, HealthCheck, Phase
    mod = importlib.import_module(modname)
    known = load_known()
    res = {'n': 0, 'nontrivial': set(), 'classes': {}, 'samples': [], 'failures': {}, 'known_seen': {},
           'inconclusive': 0, 'skipped_time': 0, 'harness_error': None, 'shard': shard, 'shrunk': None}
    t_end = deadline

    def record(case, out):
        res['n'] += 1
        for c in out.classes:
            res['classes'][c] = res['classes'].get(c, 0) + 1
        if out.inconclusive:
            res['inconclusive'] += 1
        if out.nontrivial:
            h = case_hash(case)
            res['nontrivial'].add(h)
            if len(res['samples']) < 2:
                res['samples'].append(case)
        if not out.ok:
            kid = match_known(mod, case, out, known)
            if kid:
                res['known_seen'][kid] = res['known_seen'].get(kid, 0) + 1
            else:
                b = out.bucket()
                size = len(json.dumps(case, default=str))
                cur = res['failures'].get(b)
                if cur is None or size < cur[0]:
                    res['failures'][b] = (size, case, out.asdict(), out.extra.get('traceback', ''))

    if hasattr(mod, 'machine') and getattr(mod, 'STATEFUL', False):
        # stateful: the machine itself calls back into record()
        from hypothesis.stateful import run_state_machine_as_test
        Machine, steps = mod.machine(tier, record, lambda: time.time() > t_end)
        sett = settings(max_examples=max(1, n_cases), stateful_step_count=steps, deadline=None, database=None,
                        report_multiple_bugs=False, phases=[Phase.generate],
                        suppress_health_check=list(HealthCheck))
        try:
            run_state_machine_as_test(seed(derive_seed(base_seed, mod.ID, shard))(Machine), settings=sett)
        except HarnessError as e:
            res['harness_error'] = str(e)
        except Exception as e:
            res['harness_error'] = 'stateful runner: %s\n%s' % (e, traceback.format_exc())
    else:
        strat = mod.strategy(tier)
        phases = [Phase.generate] if only_bucket is None else [Phase.generate, Phase.shrink]

        class _Found(Exception):
            pass

        @seed(derive_seed(base_seed, mod.ID, shard))
        @settings(max_examples=max(1, n_cases), deadline=None, database=None, report_multiple_bugs=False,
                  phases=phases, suppress_health_check=list(HealthCheck), derandomize=False)
        @given(strat)
        def test(case):
            if time.time() > t_end:
                res['skipped_time'] += 1
                return
            t_case = time.time()
            out = safe_run(mod, case)
            t_case = time.time() - t_case
            if t_case > res.get('slowest', (0, None))[0]:
                res['slowest'] = (round(t_case, 2), case)
            if only_bucket is None:
                record(case, out)
            elif (not out.ok) and out.bucket() == only_bucket and not match_known(mod, case, out, known):
                res['shrunk'] = (case, out.asdict())
                raise _Found()

        try:
            test()
        except _Found:
            pass
        except HarnessError as e:
            res['harness_error'] = str(e)
        except Exception as e:
            res['harness_error'] = 'hypothesis runner: %s: %s\n%s' % (type(e).__name__, e, traceback.format_exc()[-3000:])
    res['nontrivial'] = list(res['nontrivial'])
    return res


def _exh_worker(args):
    modname, item = args
    setup_paths()
    mod = importlib.import_module(modname)
    with quiet():
        return mod.run_exhaustive(item)


# ----------------------------------------------------------------------------- main entry

def write_evidence(ident, ev):
    d = os.path.join(VERIF, 'evidence')
    if REPO != '/repo' or os.environ.get('VERIF_CASES') or os.environ.get('VERIF_TIME'):
        # sensitivity runs against a scratch copy, or runs with an overridden budget, never touch the real evidence
        d = os.path.join(VERIF, '.work', 'evidence_scratch')
    os.makedirs(d, exist_ok=True)
    tmp = os.path.join(d, '%s.json.tmp' % ident)
    with open(tmp, 'w') as f:
        json.dump(ev, f, indent=1, default=str)
    os.replace(tmp, os.path.join(d, '%s.json' % ident))


def save_replay(ident, case, outd):
    d = os.path.join(VERIF, 'replays', ident)
    os.makedirs(d, exist_ok=True)
    p = os.path.join(d, case_hash(case)[:16] + '.json')
    with open(p, 'w') as f:
        json.dump({'property': ident, 'case': case, 'outcome': outd}, f, indent=1, default=str)
    return p


def run_replay(mod, path):
    data = json.load(open(path))
    case = data['case'] if 'case' in data else data
    out = safe_run(mod, case)
    known = load_known()
    if out.ok:
        print('replay %s: property held (%s)' % (path, 'non-trivial' if out.nontrivial else 'trivial'))
        return 0
    kid = match_known(mod, case, out, known)
    if kid:
        print('KNOWN-FINDING: property=%s %s (%s)' % (mod.ID, kid, out.kind))
        return 0
    print('replay %s: %s at %s: %s' % (path, out.kind, out.where, out.detail))
    if out.extra.get('traceback'):
        print(out.extra['traceback'])
    print('VIOLATION property=%s replay=%s' % (mod.ID, path))
    return 1


def main(ident, tier, replay=None):
    t0 = time.time()
    setup_paths()
    modname = 'pbt.%s' % ident.lower()
    mod = importlib.import_module(modname)
    if replay:
        return run_replay(mod, replay)
    base_seed = int(os.environ.get('VERIF_SEED', '1'))
    known = load_known()
    budget = int(os.environ.get('VERIF_CASES', mod.BUDGET[tier]))
    tcap = float(os.environ.get('VERIF_TIME', mod.TIME[tier]))
    deadline = t0 + tcap
    # more shards than workers so that stragglers even out, but at least ~25 cases per shard (the first example of
    # every Hypothesis run is the minimal one)
    k = max(1, min(int(os.environ.get('VERIF_SHARDS_PER_PROC', '4')), budget // (NPROC * 25)))
    nshards = NPROC * k

    totals = {'n': 0, 'nontrivial': set(), 'classes': {}, 'samples': [], 'failures': {}, 'known_seen': {},
              'inconclusive': 0, 'skipped_time': 0}
    harness_errors = []
    exhaustive_info = None

    # 1. committed corpus (regression cases, shrunk witnesses): seconds
    corpus = sorted(glob.glob(os.path.join(VERIF, 'corpus', ident, '*.json')))
    n_corpus = 0
    for p in corpus:
        data = json.load(open(p))
        case = data['case'] if 'case' in data else data
        try:
            out = safe_run(mod, case)
        except HarnessError as e:
            harness_errors.append('corpus %s: %s' % (p, e)); continue
        n_corpus += 1
        totals['n'] += 1
        if out.nontrivial:
            totals['nontrivial'].add(case_hash(case))
        for c in out.classes:
            totals['classes'][c] = totals['classes'].get(c, 0) + 1
        if not out.ok:
            kid = match_known(mod, case, out, known)
            if kid:
                totals['known_seen'][kid] = totals['known_seen'].get(kid, 0) + 1
            else:
                totals['failures'].setdefault(out.bucket(), (0, case, out.asdict(), out.extra.get('traceback', '')))

    ctx = multiprocessing.get_context('fork')
    # 2. exhaustive sub-space, if the property has one
    if hasattr(mod, 'exhaustive'):
        items = mod.exhaustive(tier)
        ex = {'items': len(items), 'evaluated': 0, 'nontrivial': 0, 'complete': True, 'subspaces': {}}
        with ctx.Pool(NPROC) as pool:
            it = pool.imap_unordered(_exh_worker, [(modname, i) for i in items], chunksize=1)
            done = 0
            ex_deadline = t0 + tcap * getattr(mod, 'EXH_TIME_FRACTION', 0.5)
            for r in it:
                done += 1
                n_ev, n_nt, fails, sample, label = r
                ex['evaluated'] += n_ev; ex['nontrivial'] += n_nt
                ss = ex['subspaces'].setdefault(label, {'evaluated': 0, 'nontrivial': 0, 'items_done': 0})
                ss['evaluated'] += n_ev; ss['nontrivial'] += n_nt; ss['items_done'] += 1
                if sample is not None and len(totals['samples']) < 2:
                    totals['samples'].append(sample)
                for case, outd in fails:
                    o = Out(); o.ok = False; o.kind = outd['kind']; o.where = outd['where']; o.detail = outd['detail']; o.extra = outd.get('extra', {}) or {}
                    kid = match_known(mod, case, o, known)
                    if kid:
                        totals['known_seen'][kid] = totals['known_seen'].get(kid, 0) + 1
                    else:
                        b = o.bucket()
                        size = len(json.dumps(case, default=str))
                        cur = totals['failures'].get(b)
                        if cur is None or size < cur[0]:
                            totals['failures'][b] = (size, case, outd, '')
                if time.time() > ex_deadline and done < len(items):
                    ex['complete'] = False
                    pool.terminate()
                    break
        ex['items_done'] = done
        exhaustive_info = ex

    # 3. generated cases, one independent Hypothesis run per shard
    per = int(math.ceil(budget / float(nshards)))
    jobs = [(modname, tier, base_seed, s, nshards, per, deadline, None) for s in range(nshards)]
    with ctx.Pool(NPROC) as pool:
        results = list(pool.imap_unordered(_worker, jobs, chunksize=1))
    results.sort(key=lambda r: r['shard'])
    for r in results:
        totals['n'] += r['n']
        totals['nontrivial'].update(r['nontrivial'])
        for c, v in r['classes'].items():
            totals['classes'][c] = totals['classes'].get(c, 0) + v
        for s in r['samples']:
            if len(totals['samples']) < 5:
                totals['samples'].append(s)
        for kid, v in r['known_seen'].items():
            totals['known_seen'][kid] = totals['known_seen'].get(kid, 0) + v
        totals['inconclusive'] += r['inconclusive']
        totals['skipped_time'] += r['skipped_time']
        if r.get('slowest', (0, None))[0] > totals.get('slowest', (0, None))[0]:
            totals['slowest'] = r['slowest']
        if r['harness_error']:
            harness_errors.append('shard %d: %s' % (r['shard'], r['harness_error']))
        for b, f in r['failures'].items():
            cur = totals['failures'].get(b)
            if cur is None or f[0] < cur[0]:
                totals['failures'][b] = f + (r['shard'],)

    # 4. thorough tier: let Hypothesis shrink the first failing case of each bucket (same seed, same shard)
    replays = []
    for b, f in sorted(totals['failures'].items()):
        case, outd = f[1], f[2]
        if tier == 'thorough' and len(f) > 4 and len(replays) < 3 and not getattr(mod, 'STATEFUL', False):
            try:
                with ctx.Pool(1) as pool:
                    r = pool.apply_async(_worker, ((modname, tier, base_seed, f[4], nshards, per, time.time() + 400, b),)).get(timeout=450)
                if r.get('shrunk'):
                    case, outd = r['shrunk']
            except Exception:
                pass
        replays.append((b, save_replay(ident, case, outd), outd, f[3]))

    n_eval = totals['n'] + (exhaustive_info['evaluated'] if exhaustive_info else 0)
    n_nt = len(totals['nontrivial']) + (exhaustive_info['nontrivial'] if exhaustive_info else 0)
    wall = time.time() - t0
    ev = {
        'property_id': ident, 'tier': tier, 'seed': base_seed, 'level': 'exploration',
        'coverage': {
            'evaluations': n_eval,
            'distinct_nontrivial': n_nt,
            'rule': mod.RULE,
            'samples': totals['samples'][:5],
            'classes': dict(sorted(totals['classes'].items())),
            'corpus_replayed': n_corpus,
            'inconclusive': totals['inconclusive'],
            'not_run_time_budget': totals['skipped_time'],
            'known_findings_seen': totals['known_seen'],
            'exhaustive': bool(exhaustive_info and exhaustive_info['complete']) if exhaustive_info else False,
            'shards': nshards,
            'slowest_case_s': totals.get('slowest', (0, None))[0],
        },
        'assumptions': list(getattr(mod, 'ASSUMPTIONS', [])) + [
            'code under test imported from %s (working tree)' % REPO,
            'numpy/scipy/pandas/networkx as installed in /venv are trusted',
            'the independent oracles in /verif/pbt/oracles.py are trusted'],
        'wall_s': round(wall, 2),
        'violations': len(replays),
    }
    if exhaustive_info:
        ev['coverage']['exhaustive_part'] = exhaustive_info
    if hasattr(mod, 'extra_evidence'):
        ev['coverage'].update(mod.extra_evidence(totals))
    if harness_errors:
        ev['coverage']['harness_errors'] = harness_errors[:5]
    write_evidence(ident, ev)

    print('%s tier=%s seed=%d cases=%d nontrivial=%d inconclusive=%d not_run(time)=%d wall=%.1fs' % (
        ident, tier, base_seed, n_eval, n_nt, totals['inconclusive'], totals['skipped_time'], wall))
    if totals.get('slowest', (0, None))[0] > 20:
        print('  slowest case: %.1fs %s' % (totals['slowest'][0], json.dumps(totals['slowest'][1], default=str)[:600]))
    if totals['classes']:
        print('  classes: ' + ', '.join('%s=%d' % kv for kv in sorted(totals['classes'].items())))
    for kid, v in sorted(totals['known_seen'].items()):
        desc = next((k.get('what', '') for k in known if k['id'] == kid), '')
        print('KNOWN-FINDING: property=%s %s: %s (seen %d times)' % (ident, kid, desc, v))
    if harness_errors:
        for h in harness_errors[:3]:
            print('HARNESS-ERROR: %s' % h, file=sys.stderr)
        return 2
    if replays:
        for b, p, outd, tb in replays:
            print('  failure bucket %s: %s' % (b, outd['detail'][:600]))
            if tb:
                print(tb[-1500:])
            print('VIOLATION property=%s replay=%s' % (ident, p))
        return 1
    min_nt = getattr(mod, 'MIN_NONTRIVIAL', 2)
    if n_nt < min_nt:
        print('HARNESS-ERROR: only %d non-trivial cases (need %d): generator or budget problem' % (n_nt, min_nt), file=sys.stderr)
        return 2
    return 0
