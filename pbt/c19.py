"""C19 - public-data reweighting yields valid weights and never a worse fit."""
import numpy as np
from hypothesis import strategies as st
from . import gen, oracles, inf
from .common import Out, import_mbi

ID = 'C19'
RULE = ('Hypothesis draws a domain (1-4 attrs, sizes 1-5), a public dataset of 1-40 records (duplicates, records in '
        'cells the private data never visits), 1-4 measurements with tuple projections (incl. the same clique measured '
        'twice with different noise scales, nested and single-cell projections), queries identity/dense/prefix/sparse, '
        'noise scales log-uniform, answers from a private table scaled to the total with noise multiplier {0,1,5} or '
        'strongly conflicting answers, total in {0.5,1,10,1000} or omitted, metric L2 (L1 at low weight). Fresh '
        'PublicInference per case. Oracle: weights finite, >=0, one per public record, sum = given total or the C09 '
        'reference estimate; data frame unchanged; loss recomputed from weighted contingency tables <= loss of uniform '
        'weights with the same total. Non-trivial = >=2 public records in different measured cells and final loss < 0.99 '
        'x initial loss; distinct by sha1.')
BUDGET = {'quick': 480, 'thorough': 16000}
TIME = {'quick': 110, 'thorough': 1500}


@st.composite
def cases(draw, tier='quick'):
    dom = draw(gen.domains(1, 4 if tier == 'quick' else 5, 1, 5, cap=625 if tier == 'quick' else 3125))
    attrs, shape = dom['attrs'], dom['shape']
    meas = draw(inf.measurement_specs(attrs, shape, 1, 4, max_proj=2, max_cells=25,
                                      kinds=['identity', 'identity', 'sparse_eye', 'dense', 'prefix', 'sparse_prefix', 'scaled', 'total']))
    return {'domain': dom, 'meas': meas, 'n_public': draw(st.integers(1, 40)), 'pub_seed': draw(st.integers(0, 2**31 - 1)),
            'pub_skew': draw(st.sampled_from([0.0, 1.0, 3.0])),
            'data_seed': draw(st.integers(0, 2**31 - 1)), 'total': draw(st.sampled_from([0.5, 1, 10, 1000.0, None, None])),
            'true_total': draw(st.sampled_from([1.0, 40.0, 500.0])), 'metric': draw(st.sampled_from(['L2', 'L2', 'L1'])),
            'conflict': draw(st.integers(0, 4)) == 0}


@st.composite
def tug_cases(draw):
    """Tug of war between measurements of different precision on perfectly correlated public data: which side wins
    depends on how the noise scales weight the residuals, so a mis-weighted objective ends above the uniform start."""
    k = draw(st.integers(3, 5))
    names = list(draw(st.permutations(gen.NAMES[:k])))
    s1 = draw(st.sampled_from([1.0, 2.0, 0.5]))
    r = draw(st.sampled_from([0.3, 0.4, 0.5, 0.7]))
    push = draw(st.sampled_from([1.0, 2.0, 5.0]))
    pull = draw(st.sampled_from([10.0, 20.0, 30.0]))
    return {'tug': True, 'domain': {'attrs': names, 'shape': [2] * k}, 'n_public': draw(st.integers(10, 60)), 'pub_seed': draw(st.integers(0, 2**31 - 1)),
            'total': draw(st.sampled_from([100.0, 50.0])), 'metric': draw(st.sampled_from(['L1', 'L1', 'L2'])),
            's1': s1, 's2': s1 * r, 'push': push, 'pull': pull, 'flip': draw(st.booleans()),
            'meas': [], 'pub_skew': 0.0, 'data_seed': 0, 'true_total': 1.0, 'conflict': False}


def strategy(tier):
    return st.one_of(cases(tier), cases(tier), cases(tier), cases(tier), tug_cases())


def weighted_table(recs, w, shape):
    T = np.zeros(shape)
    np.add.at(T, tuple(recs.T), w)
    return T


def run_case(case):
    mbi = import_mbi()
    import pandas as pd
    out = Out()
    attrs, shape = list(case['domain']['attrs']), list(case['domain']['shape'])
    domain = mbi.Domain(attrs, shape)
    rng = np.random.Generator(np.random.PCG64(case['pub_seed']))
    n = case['n_public']
    cols = []
    for s in shape:
        p = np.exp(-case['pub_skew'] * rng.permutation(s).astype(float)); p /= p.sum()
        cols.append(rng.choice(s, size=n, p=p))
    recs = np.stack(cols, axis=1).astype(np.int64)
    if case.get('tug'):
        half = rng.permutation(n) < max(1, n // 2)
        recs = np.tile(half.astype(np.int64)[:, None], (1, len(attrs)))
    df = pd.DataFrame(recs, columns=attrs)
    df0 = df.copy()
    public = mbi.Dataset(df, domain)
    tt = case['total'] if case['total'] is not None else case['true_total']
    X = inf.true_table(case['data_seed'], shape, tt, conc=0.3)
    meas = inf.expand(case['meas'], attrs, shape, X)
    if case.get('tug'):
        tot = float(case['total'])
        U = weighted_table(recs, np.full(n, tot / n), shape)
        sgn = -1.0 if case['flip'] else 1.0
        specs = []
        for j, a in enumerate(attrs):
            last = j == len(attrs) - 1
            m = inf.Meas({'proj': [a], 'q': {'kind': 'identity', 'rows': 2, 'seed': 0, 'c': 1.0}, 'noise': case['s2'] if last else case['s1'], 'yseed': 0, 'noise_mult': 0.0}, attrs, shape, U)
            d = (-case['pull'] if last else case['push']) * sgn
            m.y = m.y + np.array([d, -d])
            specs.append(m)
        meas = specs
        out.classes.append('tug_of_war')
    if case['conflict']:
        for i, m in enumerate(meas):
            r = np.random.Generator(np.random.PCG64(case['data_seed'] + i))
            m.y = m.y[r.permutation(m.y.size)] * 3.0
    ms = []
    from scipy import sparse
    for m in meas:
        Q = m.Qobj if m.Qobj is not None else np.eye(m.Qd.shape[1])
        if not isinstance(Q, np.ndarray) and not sparse.issparse(Q):
            Q = m.Qd.copy()
        ms.append((Q, m.y.copy(), m.noise, tuple(m.proj)))
    eng = mbi.PublicInference(public, metric=case['metric'])
    if case['pub_seed'] % 4 == 1:
        # the engine was used before, for other answers implying another total (estimated from them)
        eng.estimate([(Q, 3.0 * y + 1.0, s, p) for Q, y, s, p in ms], total=None)
        out.classes.append('prior_call_other_answers')
    elif case['pub_seed'] % 4 == 3 and len(ms) >= 1:
        # ... or for answers that contradict the public data so strongly that most weights collapse to (nearly) zero
        Q0, y0, s0, p0 = ms[0]
        big = np.zeros_like(np.asarray(y0, dtype=float)); big[0] = 5000.0
        eng.estimate([(Q0, big, min(1.0, s0), p0)], total=5000.0)
        out.classes.append('prior_call_collapsing_weights')
    start_w = None if not any(c.startswith('prior_call') for c in out.classes) else np.asarray(eng.weights, dtype=float).copy()
    est = eng.estimate(ms, total=case['total'])
    w = np.asarray(est.weights, dtype=float)
    if case['pub_seed'] % 3 == 0:
        # the same engine is used again with another total: what was handed back before must not change
        w_before = w.copy()
        est2 = eng.estimate(ms, total=(float(case['total']) if case['total'] is not None else 10.0) * 2.5)
        if not np.array_equal(np.asarray(est.weights, dtype=float), w_before, equal_nan=True):
            return out.fail('earlier_result_changed', 'the weights returned by the first estimate call changed when estimate was called again (sum %r -> %r)' % (float(w_before.sum()), float(np.sum(est.weights))))
        out.classes.append('second_call_same_engine')
    out.classes += ['metric:' + case['metric'], 'total:' + ('given' if case['total'] is not None else 'estimated')]
    if w.shape != (n,):
        return out.fail('invalid:length', 'weights have shape %s for %d public records' % (w.shape, n))
    if not np.all(np.isfinite(w)) or w.min() < 0:
        return out.fail('invalid:weights', 'weights not finite and non-negative (min %r)' % float(np.nanmin(w)))
    if not est.df.equals(df0) or not df.equals(df0) or list(est.df.columns) != attrs:
        return out.fail('mutated:public_records', 'the returned records differ from the public records')
    if tuple(est.domain.attrs) != tuple(attrs) or tuple(est.domain.shape) != tuple(shape):
        return out.fail('invalid:domain', 'returned domain %s' % est.domain)
    # total
    if case['total'] is not None:
        total = float(case['total'])
    else:
        refs = []
        for m in meas:
            nn = m.Qd.shape[1]
            v = np.linalg.pinv(m.Qd.T) @ np.ones(nn)
            if np.allclose(m.Qd.T @ v, np.ones(nn), atol=1e-8):
                refs.append((m.noise ** 2 * float(v @ v), float(v @ m.y)))
        if refs:
            var = 1.0 / sum(1.0 / a for a, _ in refs)
            total = max(1.0, var * sum(e / a for a, e in refs))
        else:
            total = 1.0
    if abs(float(w.sum()) - total) > (1e-9 if case['total'] is not None else 1e-6) * total:
        return out.fail('invalid:weight_sum', 'weights sum to %r, %s total %r' % (float(w.sum()), 'given' if case['total'] is not None else 'reference estimate of the', total))
    # fit
    metric = case['metric']
    Tw = weighted_table(recs, w, shape)
    # A fresh engine starts from uniform weights; a reused engine starts from the weights of its previous call
    # (rescaled): the line search guarantees "no worse than the start", which is what is compared in that case.
    ref_w = np.full(n, total / n) if start_w is None or not np.all(np.isfinite(start_w)) or start_w.sum() <= 0 else start_w * (total / start_w.sum())
    Tu = weighted_table(recs, ref_w, shape)
    lw = inf.loss_from_answers(meas, lambda proj: oracles.marg(Tw, attrs, proj), metric)
    lu = inf.loss_from_answers(meas, lambda proj: oracles.marg(Tu, attrs, proj), metric)
    scale = inf.loss_from_answers(meas, lambda proj: np.zeros([shape[attrs.index(a)] for a in proj]), metric)   # loss of the all-zero table
    if lw > lu * (1 + 1e-9) + 1e-9 * scale + 1e-300:
        return out.fail('worse_than_uniform', 'loss %r of the reweighted public data exceeds the loss %r of %s public data (total %r, %s)' % (lw, lu, 'uniformly weighted' if start_w is None else 'the previously weighted (starting point)', total, metric))
    cells = set()
    for m in meas:
        idx = [attrs.index(a) for a in m.proj]
        cells.update((tuple(m.proj), tuple(r[idx])) for r in recs)
    by_proj = {}
    for p, c in cells:
        by_proj.setdefault(p, set()).add(c)
    out.nontrivial = any(len(v) >= 2 for v in by_proj.values()) and lw < 0.99 * lu
    if len(set(tuple(m.proj) for m in meas)) < len(meas): out.classes.append('clique_measured_twice')
    if case['conflict']: out.classes.append('conflicting_answers')
    return out
