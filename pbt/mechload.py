"""Loads the shipped mechanisms (mechanisms/*.py) from the repository under test with test doubles for the
third-party packages that are not installed (hdmm, autodp) and an optional cap on inference iterations."""
import sys, os, types, importlib, importlib.util
import numpy as np
from .common import REPO, setup_paths, HarnessError

CALIBRATOR_CALLS = []


def _stubs():
    from scipy import sparse
    if 'hdmm' not in sys.modules or not getattr(sys.modules['hdmm'], '_verif_stub', False):
        hd = types.ModuleType('hdmm'); hd._verif_stub = True
        hm = types.ModuleType('hdmm.matrix')
        hm.Identity = lambda n: sparse.eye(n, format='csr')
        hd.matrix = hm
        sys.modules['hdmm'] = hd; sys.modules['hdmm.matrix'] = hm
    if 'autodp' not in sys.modules or not getattr(sys.modules['autodp'], '_verif_stub', False):
        ad = types.ModuleType('autodp'); ad._verif_stub = True
        pc = types.ModuleType('autodp.privacy_calibrator')

        def ana_gaussian_mech(epsilon, delta, tol=1e-12):
            CALIBRATOR_CALLS.append((epsilon, delta))
            # a known, recorded sigma (any positive function of (eps, delta) serves as the third-party double)
            return {'sigma': float(np.sqrt(2 * np.log(1.25 / delta)) / epsilon)}
        pc.ana_gaussian_mech = ana_gaussian_mech
        ad.privacy_calibrator = pc
        sys.modules['autodp'] = ad; sys.modules['autodp.privacy_calibrator'] = pc


_cache = {}


def load(name, iter_cap=None):
    """name in {'mechanism','mst','aim','mwem+pgm','adaptive_grid','cdp2adp'} -> module object (fresh per iter_cap)."""
    setup_paths()
    _stubs()
    key = (name, iter_cap)
    path = os.path.join(REPO, 'mechanisms', name + '.py')
    mt = os.path.getmtime(path)
    if key in _cache and _cache[key][0] == mt:
        return _cache[key][1]
    if name in ('mechanism', 'cdp2adp'):
        mod = importlib.import_module('mechanisms.' + name)
    else:
        modname = 'verif_mech_%s_%s' % (name.replace('+', '_'), iter_cap)
        spec = importlib.util.spec_from_file_location(modname, path)
        mod = importlib.util.module_from_spec(spec)
        sys.modules[modname] = mod
        spec.loader.exec_module(mod)
        if iter_cap is not None and hasattr(mod, 'FactoredInference'):
            Base = mod.FactoredInference

            class CappedInference(Base):
                """Privacy is independent of post-processing quality: cap the hard-coded 1000-5000 iterations."""
                def __init__(self, *a, **kw):
                    if 'iters' in kw: kw['iters'] = min(kw['iters'], iter_cap)
                    super().__init__(*a, **kw)
                    self.iters = min(self.iters, iter_cap)

                def __setattr__(self, k, v):
                    if k == 'iters' and isinstance(v, int): v = min(v, iter_cap)
                    object.__setattr__(self, k, v)
            mod.FactoredInference = CappedInference
    if not os.path.abspath(mod.__file__).startswith(REPO + os.sep):
        raise HarnessError('%s loaded from %s' % (name, mod.__file__))
    _cache[key] = (mt, mod)
    return mod
