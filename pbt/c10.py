"""C10 - structural zeros carry no mass in any answer."""
import itertools
import numpy as np
from hypothesis import strategies as st
from . import gen, oracles, inf
from .common import Out, import_mbi

ID = 'C10'
RULE = ('Hypothesis draws a domain (2-4 attrs, sizes 1-4), 1-3 structural-zero sets (on measured cliques, sub-cliques, '
        'unmeasured attribute groups, overlapping; occasionally an empty cell list) never covering a witness assignment, '
        '1-5 measurements generated from a dense positive table (so the data put mass on the declared cells), a solver per '
        'call, iters in {1,20,200}, warm_start on/off and a history of 1-3 estimate calls over growing prefixes or arbitrary (changed, '
        'shrunk) subsets of the measurement list. Oracle: a marginal cell all of whose joint cells are declared impossible must carry <= '
        '1e-60*total in project() on every attribute subset and in datavector(); every answer finite, >=0, sums to total; '
        'synthetic_data (round and sample) has no record in a declared cell. Non-trivial = the generating table has > '
        '0.1% of its mass on declared cells and a measurement touches a zero clique; distinct by sha1.')
BUDGET = {'quick': 1200, 'thorough': 24000}
TIME = {'quick': 110, 'thorough': 1500}


@st.composite
def cases(draw, tier='quick'):
    case = draw(inf.est_cases(min_m=1, max_m=5, zeros=False, iters=(1, 20, 200, 0), max_attrs=4 if tier == 'quick' else 5, cap=256 if tier == 'quick' else 1024))
    attrs, shape = case['domain']['attrs'], case['domain']['shape']
    case['zeros'] = draw(inf.zero_specs(attrs, shape, case['witness'], allow_empty=draw(st.integers(0, 9)) == 0))
    case['warm_start'] = draw(st.booleans())
    k = draw(st.integers(1, 3))
    nm = len(case['meas'])
    case['calls'] = []
    for j in range(k):
        if draw(st.booleans()):
            sub = list(range(draw(st.integers(1, max(1, nm)))))           # growing prefix (AIM / MWEM style)
        else:
            sub = sorted(draw(st.lists(st.integers(0, nm - 1), min_size=1, max_size=nm, unique=True)))   # changed / shrunk list
        case['calls'].append({'use': sub, 'solver': draw(st.sampled_from(['MD', 'RDA', 'IG']))})
    case['synth'] = {'rows': draw(st.sampled_from([7, 100])), 'seed': draw(st.integers(0, 2**31 - 1))}
    case['order_seed'] = draw(st.integers(0, 2**31 - 1))
    return case


def strategy(tier):
    return cases(tier)


def run_case(case):
    mbi = import_mbi()
    out = Out()
    attrs, shape = list(case['domain']['attrs']), list(case['domain']['shape'])
    domain = mbi.Domain(attrs, shape)
    tt = case['total'] if case['total'] is not None else case['true_total']
    X = inf.true_table(case['data_seed'], shape, tt, conc=2.0)
    mask = inf.zero_mask(case['zeros'], attrs, shape)
    eng = mbi.FactoredInference(domain, iters=case['iters'], structural_zeros=inf.zeros_dict(case['zeros']), warm_start=case['warm_start'])
    model = None
    sizes = dict(zip(attrs, shape))
    for call in case['calls']:
        specs = [case['meas'][i] for i in call['use']] if 'use' in call else case['meas'][:call['upto']]
        if call['solver'] in ('RDA', 'IG'):
            specs = [m for m in specs if int(np.prod([sizes[a] for a in m['proj']])) >= 2 and m['q']['kind'] != 'zero']
        meas = inf.expand(specs, attrs, shape, X)
        model = eng.estimate([m.tuple for m in meas], total=case['total'], engine=call['solver'])
        # root-cause signature of F14, tracked over the whole history (a warm start inherits the potentials)
        out.extra['theta_offset'] = max(out.extra.get('theta_offset', 0.0), inf.theta_offset(model))
    tot = float(model.total)
    rng = np.random.Generator(np.random.PCG64(case['order_seed']))
    allowed = (~mask).astype(float)
    # float64 resolves log-probabilities to ~2e-16 x |theta|: same magnitude-aware tolerance as C08
    mag = max([float(np.max(np.abs(v[np.isfinite(v)]))) if np.isfinite(v).any() else 0.0
               for v in (np.asarray(model.potentials[c].values, dtype=float) for c in model.cliques)] + [0.0])
    sum_tol = 1e-6 + 1e-14 * mag

    def sweep(tag):
        for r in range(0, len(attrs) + 1):
            for sub in itertools.combinations(attrs, r):
                want = [str(a) for a in (rng.permutation(list(sub)) if r > 1 else sub)]
                v = np.asarray(model.project(tuple(want)).values, dtype=float)
                if not np.all(np.isfinite(v)):
                    return finish(out.fail('invalid:nonfinite' + tag, 'project(%s) has NaN/inf entries' % (want,)), case, X, mask, tt)
                if np.min(v) < -1e-9 * tot:
                    return finish(out.fail('invalid:negative' + tag, 'project(%s) has entry %r' % (want, float(np.min(v)))), case, X, mask, tt)
                if abs(float(v.sum()) - tot) > sum_tol * tot:
                    return finish(out.fail('invalid:sum' + tag, 'project(%s) sums to %r, total %r' % (want, float(v.sum()), tot)), case, X, mask, tt)
                dead = oracles.marg(allowed, attrs, want) == 0
                if np.any(dead) and float(np.max(v[dead])) > 1e-60 * tot:
                    i = np.unravel_index(np.argmax(np.where(dead, v, -1)), v.shape)
                    return finish(out.fail('mass_on_zero:project' + tag, 'project(%s) puts %r of total %r on structurally impossible cell %s' % (
                        want, float(v[i]), tot, tuple(int(x) for x in i))), case, X, mask, tt)
        return None
    res = sweep('')
    if res is not None: return res
    dv = np.asarray(model.datavector(flatten=False), dtype=float)
    if not np.all(np.isfinite(dv)):
        return finish(out.fail('invalid:nonfinite', 'datavector has NaN/inf'), case, X, mask, tt)
    if np.any(mask) and float(np.max(dv[mask])) > 1e-60 * tot:
        return finish(out.fail('mass_on_zero:datavector', 'datavector puts %r on a declared cell' % float(np.max(dv[mask]))), case, X, mask, tt)
    for method in ('round', 'sample'):
        np.random.seed(case['synth']['seed'])
        df = model.synthetic_data(rows=case['synth']['rows'], method=method).df
        recs = df[attrs].values
        for rec in recs:
            if mask[tuple(int(x) for x in rec)]:
                return finish(out.fail('mass_on_zero:synthetic_' + method, 'synthetic record %s lies in a declared-impossible cell' % (list(map(int, rec)),)), case, X, mask, tt)
    # generating records is a read-only use of the model: every answer afterwards is as before
    res = sweep(':after_synthetic_data')
    if res is not None: return res
    return finish(out, case, X, mask, tt)


def finish(out, case, X, mask, tt):
    zattrs = set(a for z in case['zeros'] for a in z['clique'])
    last = case['calls'][-1]
    used = [case['meas'][i] for i in last['use']] if 'use' in last else case['meas'][:last['upto']]
    touched = any(set(m['proj']) & zattrs for m in used)
    out.nontrivial = bool(np.any(mask)) and float(X[mask].sum()) > 1e-3 * float(tt) and touched
    solvers = sorted(set(c['solver'] for c in case['calls']))
    out.classes = ['last_solver:' + case['calls'][-1]['solver'], 'iters:%d' % case['iters'], 'calls:%d' % len(case['calls'])]
    if case['warm_start']: out.classes.append('warm_start')
    if any(not z['cells'] for z in case['zeros']): out.classes.append('empty_zero_list')
    measured = [set(m['proj']) for m in used]
    for z in case['zeros']:
        s = set(z['clique'])
        if any(s == m for m in measured): out.classes.append('zero_on_measured_clique')
        elif any(s < m for m in measured): out.classes.append('zero_on_subclique')
        elif not any(s & m for m in measured): out.classes.append('zero_on_unmeasured_group')
    if len(case['calls']) >= 2 and any(not any(set(m['proj']) <= set(u['proj']) for u in used) for c in case['calls'][:-1] for m in ([case['meas'][i] for i in c['use']] if 'use' in c else [])):
        out.classes.append('shrunk_last_call')
    out.classes = sorted(set(out.classes))
    return out


def _md_stalled(case, outc):
    return any(c['solver'] == 'MD' for c in case.get('calls', [])) and outc.extra.get('theta_offset', 0.0) >= 1e6


KNOWN = {'md_step_doubling': _md_stalled}
