"""C01 - exact inference equals the marginals of the normalised product distribution."""
import numpy as np
from hypothesis import strategies as st
from . import gen, oracles
from .common import Out, import_mbi

ID = 'C01'
RULE = ('Hypothesis draws a domain (1-6 attrs, sizes 1-4, names in non-lexicographic order), a clique list from a '
        'mixture of shapes (free/chain/star/cycle/complete/two components/nested/duplicated, random internal order), one '
        'log-potential per input clique plus optional sub-clique factors (N(0,1)*scale, scale up to 1e5, optional -inf '
        'entries never covering a witness cell), a total, an elimination-order mode (None/permutation/int) and a '
        'message schedule (default or a random linear extension). Oracle: brute-force joint. Non-trivial = >=2 maximal '
        'cliques joined by a non-empty separator and non-constant potentials; distinct by sha1 of the case.')
BUDGET = {'quick': 12000, 'thorough': 300000}
TIME = {'quick': 100, 'thorough': 1200}


@st.composite
def order_mode(draw, attrs):
    m = draw(st.sampled_from(['none', 'perm', 'perm_tuple', 'int']))
    d = {'mode': m}
    if m.startswith('perm'):
        d['perm'] = list(draw(st.permutations(list(attrs))))
    if m == 'int':
        d['k'] = draw(st.integers(1, 3))
    return d


@st.composite
def cases(draw, tier='quick'):
    dom = draw(gen.domains(1, 6 if tier == 'quick' else 7, 1, 4, cap=4096 if tier == 'quick' else 20000))
    attrs = dom['attrs']
    cliques = draw(gen.clique_sets(attrs, max_cliques=6, max_clique_size=4))
    witness = [draw(st.integers(0, s - 1)) for s in dom['shape']]
    factors = []
    for cl in cliques:
        factors.append({'attrs': cl, 'vals': draw(gen.value_spec),
                        'ninf': draw(st.sampled_from([0, 0, 0, 0.2, 0.5, 0.8]))})
    nextra = draw(st.integers(0, 2)) if cliques else 0
    for _ in range(nextra):
        base = draw(st.sampled_from(cliques))
        sub = draw(gen.ordered_subset(base, 1, len(base)))
        factors.append({'attrs': sub, 'vals': draw(gen.value_spec), 'ninf': draw(st.sampled_from([0, 0, 0.3]))})
    case = {
        'domain': dom, 'cliques': cliques, 'factors': factors, 'witness': witness,
        'total': draw(gen.totals),
        'order': draw(order_mode(attrs)), 'order2': draw(order_mode(attrs)),
        'np_seed': draw(st.integers(0, 2**31 - 1)),
        'schedule': draw(st.one_of(st.none(), st.lists(st.integers(0, 1000), min_size=8, max_size=40))),
        'shift': {'which': draw(st.integers(0, 50)), 'c': draw(st.sampled_from([0.0, 1.0, -7.5, 1e4, -1e4, 123456.0]))},
    }
    return case


def strategy(tier):
    return cases(tier)


def build_factors(case):
    attrs, shape = case['domain']['attrs'], case['domain']['shape']
    out = []
    for f in case['factors']:
        fa = list(f['attrs'])
        fshape = [shape[attrs.index(a)] for a in fa]
        v = gen.expand_values(f['vals'], fshape)
        if f['ninf'] > 0:
            keep = [case['witness'][attrs.index(a)] for a in fa]
            m = gen.neg_inf_mask(f['vals']['seed'], fshape, f['ninf'], keep)
            v = np.where(m, -np.inf, v)
        out.append((fa, v))
    return out


def elim_arg(o):
    if o['mode'] == 'none':
        return None
    if o['mode'] == 'perm':
        return list(o['perm'])
    if o['mode'] == 'perm_tuple':
        return tuple(o['perm'])
    return int(o['k'])


def fold_potentials(mbi, domain, model, factors):
    pot = mbi.CliqueVector.zeros(domain, model.cliques)
    for fa, v in factors:
        f = mbi.Factor(domain.project(fa), v.copy())
        before = sum(1 for _ in pot)
        pot.combine(mbi.CliqueVector({tuple(fa): f}))
    return pot


def random_schedule(model, picks):
    """A random linear extension of the message-dependency order, by Kahn's algorithm."""
    msgs = list(model.message_order)
    deps = {m: set(k for k in msgs if k[1] == m[0] and k[0] != m[1]) for m in msgs}
    done, order = set(), []
    i = 0
    while len(order) < len(msgs):
        ready = [m for m in msgs if m not in done and deps[m] <= done]
        m = ready[picks[i % len(picks)] % len(ready)]
        i += 1
        order.append(m); done.add(m)
    return order


def check_marginals(out, tag, model, mu, P, attrs, total):
    for cl in model.cliques:
        ref = oracles.marg(P, attrs, cl)
        f = mu[cl]
        if tuple(f.domain.attrs) != tuple(cl):
            return out.fail('mismatch:%s:domain' % tag, 'marginal for %s has attrs %s' % (cl, f.domain.attrs))
        ok, why = oracles.close(f.values, ref, 1e-6, 1e-9 * total)
        if not ok:
            return out.fail('mismatch:%s' % tag, 'clique %s: %s' % (cl, why))
    return out


def run_case(case):
    mbi = import_mbi()
    out = Out()
    attrs, shape = case['domain']['attrs'], case['domain']['shape']
    domain = mbi.Domain(attrs, shape)
    total = case['total']
    factors = build_factors(case)
    P, z = oracles.joint(attrs, shape, factors, float(total))
    cliques = [list(c) if i % 2 else tuple(c) for i, c in enumerate(case['cliques'])]

    np.random.seed(case['np_seed'])
    model = mbi.GraphicalModel(domain, cliques, total, elimination_order=elim_arg(case['order']))
    pot = fold_potentials(mbi, domain, model, factors)
    mu = model.belief_propagation(pot)
    check_marginals(out, 'bp', model, mu, P, attrs, float(total))

    if out.ok:
        held = {cl: np.array(mu[cl].values, dtype=float).copy() for cl in model.cliques}
        lz = model.belief_propagation(pot, logZ=True)
        for cl in model.cliques:
            if not np.array_equal(np.asarray(mu[cl].values, dtype=float), held[cl], equal_nan=True):
                out.fail('result_changed_by_later_call', 'the marginals returned by belief_propagation changed when belief_propagation was called again (clique %s)' % (cl,)); break
        if out.ok and (not np.isfinite(lz) or abs(float(lz) - z) > 1e-9 * abs(z) + 1e-7):
            out.fail('mismatch:logZ', 'logZ got %r ref %r' % (lz, z))

    # (a) a different elimination order gives the same distribution
    if out.ok:
        np.random.seed(case['np_seed'] + 1)
        model2 = mbi.GraphicalModel(domain, cliques, total, elimination_order=elim_arg(case['order2']))
        pot2 = fold_potentials(mbi, domain, model2, factors)
        mu2 = model2.belief_propagation(pot2)
        check_marginals(out, 'order2', model2, mu2, P, attrs, float(total))

    # (b) adding a constant to one potential changes nothing
    if out.ok and case['shift']['c'] != 0.0:
        cl = model.cliques[case['shift']['which'] % len(model.cliques)]
        pot3 = mbi.CliqueVector({c: pot[c].copy() for c in pot})
        pot3[cl] = pot3[cl] + case['shift']['c']
        mu3 = model.belief_propagation(pot3)
        check_marginals(out, 'shift', model, mu3, P, attrs, float(total))

    # (c) any dependency-respecting schedule
    permuted = False
    if out.ok and case['schedule'] and len(model.message_order) > 1:
        sched = random_schedule(model, case['schedule'])
        permuted = sched != list(model.message_order)
        saved = model.message_order
        model.message_order = sched
        try:
            mu4 = model.belief_propagation(pot)
        finally:
            model.message_order = saved
        check_marginals(out, 'schedule', model, mu4, P, attrs, float(total))

    # (d) the caller updates the same parameter object in place (theta[cl] += step) and asks again
    if out.ok and model.cliques:
        rng = np.random.Generator(np.random.PCG64(case['np_seed'] + 7))
        cl = model.cliques[case['shift']['which'] % len(model.cliques)]
        g = rng.standard_normal(size=domain.project(cl).shape)
        pot[cl] += mbi.Factor(domain.project(cl), g)
        P5, _ = oracles.joint(attrs, shape, factors + [(list(cl), g)], float(total))
        mu5 = model.belief_propagation(pot)
        check_marginals(out, 'after_inplace_update', model, mu5, P5, attrs, float(total))

    # classification
    mc = model.cliques
    sep = any(set(a) & set(b) for i, a in enumerate(mc) for b in mc[i + 1:])
    nonconst = any(np.isfinite(v).any() and np.nanmax(np.where(np.isfinite(v), v, np.nan)) != np.nanmin(np.where(np.isfinite(v), v, np.nan)) or (~np.isfinite(v)).any() for _, v in factors)
    out.nontrivial = len(mc) >= 2 and sep and bool(nonconst)
    import networkx as nx
    G = nx.Graph(); G.add_nodes_from(attrs)
    for c in case['cliques']:
        for i in range(len(c)):
            for j in range(i + 1, len(c)):
                G.add_edge(c[i], c[j])
    cls = ['order:' + case['order']['mode']]
    if not nx.is_chordal(G) if G.number_of_nodes() > 0 and G.number_of_edges() > 0 else False:
        cls.append('needs_fill_in')
    if G.number_of_edges() > 0 and len(nx.cycle_basis(G)) > 0:
        cls.append('cyclic')
    if nx.number_connected_components(G) > 1:
        cls.append('disconnected')
    if any((~np.isfinite(v)).any() for _, v in factors):
        cls.append('has_neg_inf')
    if any(f['vals']['scale'] >= 1e3 for f in case['factors']):
        cls.append('scale>=1e3')
    if permuted:
        cls.append('permuted_schedule')
    if float(total) != 1.0:
        cls.append('total!=1')
    if gen.nonlex(attrs):
        cls.append('nonlex_attr_order')
    out.classes = cls
    return out
