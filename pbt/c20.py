"""C20 - selection and noise primitives are exactly calibrated."""
import math
import numpy as np
from hypothesis import strategies as st
from . import oracles, mechload, rngtap
from .common import Out, import_mbi

ID = 'C20'
RULE = ('Hypothesis draws a primitive (Mechanism.exponential_mechanism with array / list / dict qualities and optional '
        'base-measure dict in a different key order or with extra keys; mst.exponential_mechanism and '
        'adaptive_grid.exponential_mechanism with monotonic on/off and eps=inf; mwem+pgm.worst_approximated with '
        'penalty/bounded; the noise helpers as a sequence of calls on ONE Mechanism object), 1-30 qualities (ties, '
        'all-equal, spreads 1e-9..1e6, offsets up to +-1e6), eps and sensitivity in [1e-3,1e3], a constant shift. Oracle: '
        'long-double max-shifted softmax of log(base)+coef*eps*q/sens compared in log space with the p= vector handed '
        'to numpy.random.choice; scale/size arguments of normal()/laplace(); return values of *_noise_scale. '
        'Non-trivial = >=3 candidates with >=2 distinct qualities and eps*spread/sens > 1e-3 (selection) or >=2 helper '
        'calls on one object; distinct by sha1.')
BUDGET = {'quick': 48000, 'thorough': 800000}
TIME = {'quick': 100, 'thorough': 1500}
ASSUMPTIONS = ['autodp.privacy_calibrator.ana_gaussian_mech is a recording test double (package not installed)']

PRIMS = ['mech_array', 'mech_list', 'mech_dict', 'mech_dict_base', 'mst', 'adagrid', 'mwem_worst', 'aim_worst', 'gem', 'helpers', 'helpers']

logf = lambda lo, hi: st.floats(math.log(lo), math.log(hi)).map(lambda x: float(math.exp(x)))


@st.composite
def cases(draw, tier='quick'):
    n = draw(st.one_of(st.integers(1, 6), st.integers(1, 30)))
    return {'prim': draw(st.sampled_from(PRIMS)), 'n': n, 'seed': draw(st.integers(0, 2**31 - 1)),
            'pattern': draw(st.sampled_from(['normal', 'normal', 'ties', 'equal', 'ints'])),
            'spread': draw(st.sampled_from([1e-9, 1e-3, 1.0, 1.0, 30.0, 1e3, 1e6])),
            'offset': draw(st.sampled_from([0.0, 0.0, 5.0, -1e3, 1e6, -1e6])),
            'eps': draw(st.one_of(logf(1e-3, 1e3), st.sampled_from([1.0, 0.1]))),
            'sens': draw(st.one_of(logf(1e-3, 1e3), st.sampled_from([1.0, 2.0]))),
            'shift': draw(st.sampled_from([0.0, 1.0, -7.5, 1e6, -1e6])),
            'monotonic': draw(st.booleans()), 'inf_eps': draw(st.integers(0, 9)) == 0,
            'bounded': draw(st.booleans()), 'penalty': draw(st.booleans()),
            'base_order': draw(st.sampled_from(['same', 'reversed', 'shuffled', 'superset'])),
            'np_seed': draw(st.integers(0, 2**31 - 1)),
            'helper_calls': draw(st.lists(st.tuples(st.sampled_from([1.0, 0.5, 3.0]), st.sampled_from([0.1, 1.0, 1.0, 2.5]), st.sampled_from([1e-9, 1e-6, 1e-3])), min_size=1, max_size=4)),
            'size': draw(st.sampled_from([1, 3, 17]))}


def strategy(tier):
    return cases(tier)


def qualities(case):
    rng = np.random.Generator(np.random.PCG64(case['seed']))
    n = case['n']
    if case['pattern'] == 'equal':
        q = np.zeros(n)
    elif case['pattern'] == 'ties':
        q = rng.integers(0, 3, size=n).astype(float)
    elif case['pattern'] == 'ints':
        q = rng.integers(-50, 50, size=n).astype(float)
    else:
        q = rng.standard_normal(size=n)
    return q * case['spread'] + case['offset']


def compare(out, tag, p, logw, scale_mag):
    """p: vector handed to choice; logw: unnormalised reference log-weights (long double)."""
    p = np.asarray(p, dtype=float)
    ref = oracles.ref_softmax(logw)
    if p.shape != ref.shape:
        return out.fail('mismatch:%s:shape' % tag, 'p has shape %s, %d candidates' % (p.shape, ref.size))
    if np.isnan(p).any() or (p < 0).any():
        return out.fail('mismatch:%s:nan' % tag, 'p contains NaN or negative entries')
    tol = 1e-9 + 64 * np.finfo(float).eps * scale_mag
    if abs(float(p.sum()) - 1.0) > max(1e-12 * max(1, p.size), tol if scale_mag > 1e3 else 0.0):
        return out.fail('mismatch:%s:sum' % tag, 'p sums to %r' % float(p.sum()))
    for i in range(p.size):
        if ref[i] < 1e-300:
            if p[i] > 1e-290:
                return out.fail('mismatch:' + tag, 'candidate %d: p=%r, reference %r' % (i, p[i], float(ref[i])))
        elif p[i] <= 0 or abs(math.log(p[i]) - float(np.log(ref[i]))) > tol:
            return out.fail('mismatch:' + tag, 'candidate %d: p=%r, reference %r (|dlog| tolerance %g)' % (i, p[i], float(ref[i]), tol))
    return out


def one_choice(out, tag, events):
    ch = [e for e in events if e['kind'] == 'choice']
    if len(ch) != 1 or ch[0]['p'] is None or ch[0]['size'] is not None:
        out.fail('mismatch:%s:calls' % tag, 'expected exactly one choice(n, p=...) call, saw %d' % len(ch))
        return None
    return ch[0]


def run_case(case):
    import_mbi()
    out = Out()
    prim = case['prim']
    out.classes = ['prim:' + prim]
    if prim == 'helpers':
        return helpers(case, out)
    q = qualities(case)
    n = q.size
    eps, sens = case['eps'], case['sens']
    distinct = len(set(q.tolist()))
    spread = float(q.max() - q.min())
    out.nontrivial = n >= 3 and distinct >= 2 and eps * spread / sens > 1e-3
    results = []
    for shift in ([0.0] if case['shift'] == 0.0 else [0.0, case['shift']]):
        qs = q + shift
        coef = 0.5
        logbase = np.zeros(n)
        np.random.seed(case['np_seed'])
        with rngtap.Tap(wrap_noise=False) as tap:
            if prim in ('mech_array', 'mech_list', 'mech_dict', 'mech_dict_base'):
                M = mechload.load('mechanism').Mechanism(1.0, 0, case['bounded'])
                if prim == 'mech_array':
                    arg = qs.copy()
                    if case['np_seed'] % 2:
                        M.exponential_mechanism(arg, eps, sens)
                        del tap.events[:]
                    ret = M.exponential_mechanism(arg, eps, sens); keys = list(range(n))
                    if not np.array_equal(arg, qs):
                        return out.fail('mutated:mech_array', "exponential_mechanism modified the caller's score vector")
                elif prim == 'mech_list':
                    ret = M.exponential_mechanism([float(x) for x in qs], eps, sens); keys = list(range(n))
                else:
                    keys = [('k%d' % i, i % 3) for i in range(n)]
                    qd = {k: float(v) for k, v in zip(keys, qs)}
                    if prim == 'mech_dict':
                        ret = M.exponential_mechanism(qd, eps, sens)
                    else:
                        rng = np.random.Generator(np.random.PCG64(case['seed'] + 3))
                        base = rng.uniform(0.1, 5.0, size=n)
                        if n >= 2 and case['np_seed'] % 3 == 0:
                            base[int(rng.integers(0, n))] = 0.0         # a candidate excluded by its base measure
                        with np.errstate(divide='ignore'):
                            logbase = np.log(base)
                        order = list(range(n))
                        if case['base_order'] == 'reversed': order = order[::-1]
                        elif case['base_order'] in ('shuffled', 'superset'): order = list(rng.permutation(n))
                        bd = {}
                        if case['base_order'] == 'superset':
                            bd[('extra', 9)] = 17.0
                        for i in order:
                            bd[keys[i]] = float(base[i])
                        if case['base_order'] == 'superset':
                            bd[('extra2', 8)] = 0.01
                        ret = M.exponential_mechanism(qd, eps, sens, base_measure=bd)
            elif prim == 'gem':
                # generalized exponential mechanism: only its inner exponential-mechanism call is a law of this property
                # (the score transform is the library's own helper, used here as given)
                mech = mechload.load('mechanism')
                M = mech.Mechanism(1.0, 0, case['bounded'])
                rng = np.random.Generator(np.random.PCG64(case['seed'] + 23))
                ds = rng.uniform(0.5, 3.0, size=n)
                t = 2 * np.log(n / 0.5) / eps
                ret = M.generalized_exponential_mechanism(qs.copy(), ds.copy(), eps)
                keys = list(range(n))
                qs = np.asarray(mech.generalized_em_scores(qs.copy(), ds.copy(), t), dtype=float)
                sens = 1.0
            elif prim == 'aim_worst':
                aim = mechload.load('aim', 5)
                A = aim.AIM(1.0, 0)
                rng = np.random.Generator(np.random.PCG64(case['seed'] + 29))
                cands = {('a%d' % i,): float(rng.choice([0.5, 1.0, 2.0, 3.0])) for i in range(n)}
                sizes = {w: int(rng.integers(1, 5)) for w in cands}
                sigma = float(rng.uniform(0.1, 5.0))
                ans, est_tab = {}, {}
                tgt = np.abs(qs)
                for i, w in enumerate(cands):
                    ans[w] = np.abs(rng.standard_normal(sizes[w])) * 10
                    est_tab[w] = ans[w].copy(); est_tab[w][0] += tgt[i]

                class Model(object):
                    class domain(object):
                        @staticmethod
                        def size(cl): return sizes[tuple(cl)]
                    @staticmethod
                    def project(cl):
                        class F(object):
                            @staticmethod
                            def datavector(): return est_tab[tuple(cl)].copy()
                        return F
                ret = A.worst_approximated(cands, ans, Model, eps, sigma)
                keys = list(cands.keys())
                qs = np.array([cands[w] * (np.abs(ans[w] - est_tab[w]).sum() - np.sqrt(2 / np.pi) * sigma * sizes[w]) for w in keys])
                sens = max(abs(v) for v in cands.values())
            elif prim in ('mst', 'adagrid'):
                mod = mechload.load('mst' if prim == 'mst' else 'adaptive_grid')
                e = eps
                if prim == 'adagrid' and case['inf_eps']:
                    e = np.inf; sens = 1.0      # eps=inf is only ever combined with sensitivity 1 by its callers
                coef = 1.0 if case['monotonic'] else 0.5
                arg = qs.copy()
                if case['np_seed'] % 2:
                    # selection loops draw again and again from one score vector
                    mod.exponential_mechanism(arg, e, sens, monotonic=case['monotonic'])
                    del tap.events[:]
                ret = mod.exponential_mechanism(arg, e, sens, monotonic=case['monotonic']); keys = list(range(n))
                if not np.array_equal(arg, qs):
                    return out.fail('mutated:%s' % prim, "exponential_mechanism modified the caller's score vector")
            elif prim == 'mwem_worst':
                mod = mechload.load('mwem+pgm')
                rng = np.random.Generator(np.random.PCG64(case['seed'] + 11))
                workload = [('a%d' % i,) for i in range(n)]
                sizes = {w: int(rng.integers(1, 5)) for w in workload}
                ans, est_tab = {}, {}
                for i, w in enumerate(workload):
                    x = np.abs(rng.standard_normal(sizes[w])) * 10
                    xe = x.copy()
                    # place an L1 error equal to |q_i| (+ bias) on this candidate so the qualities are the drawn ones
                    ans[w] = x; est_tab[w] = xe
                bias = {w: (sizes[w] if case['penalty'] else 0) for w in workload}
                tgt = np.abs(qs) if case['pattern'] != 'equal' else np.zeros(n)
                for i, w in enumerate(workload):
                    est_tab[w] = ans[w].copy(); est_tab[w][0] += tgt[i]
                errs = np.array([np.abs(ans[w] - est_tab[w]).sum() - bias[w] for w in workload])

                class Est(object):
                    class domain(object):
                        @staticmethod
                        def size(cl): return sizes[tuple(cl)]
                    @staticmethod
                    def project(cl):
                        class F(object):
                            @staticmethod
                            def datavector(): return est_tab[tuple(cl)].copy()
                        return F
                ans_before = {w: v.copy() for w, v in ans.items()}
                if shift != 0.0 or case['np_seed'] % 2:
                    # the mechanism loop calls the primitive round after round with the same dictionary of true answers
                    mod.worst_approximated(ans, Est, workload, eps, penalty=case['penalty'], bounded=case['bounded'])
                    del tap.events[:]
                ret = mod.worst_approximated(ans, Est, workload, eps, penalty=case['penalty'], bounded=case['bounded'])
                if any(not np.array_equal(ans[w], ans_before[w]) for w in workload):
                    return out.fail('mutated:mwem_worst', "worst_approximated modified the caller's dictionary of true answers")
                keys = workload
                qs = errs
                sens_eff = 2.0 if case['bounded'] else 1.0
        ch = one_choice(out, prim, tap.events)
        if ch is None:
            return out
        if prim == 'mwem_worst':
            logw = np.asarray(0.5 * np.longdouble(eps) / np.longdouble(sens_eff) * qs.astype(np.longdouble))
            mag = 0.5 * eps / sens_eff * float(np.max(np.abs(qs)) + 1e-300)
        elif prim == 'adagrid' and case['inf_eps']:
            best = qs == qs.max()
            logw = np.where(best, 0.0, -np.inf).astype(np.longdouble)
            mag = 1.0
        else:
            logw = np.asarray(logbase.astype(np.longdouble) + np.longdouble(coef) * np.longdouble(eps) / np.longdouble(sens) * qs.astype(np.longdouble))
            mag = coef * eps / sens * float(np.max(np.abs(qs)) + 1e-300)
        compare(out, prim, ch['p'], logw, mag)
        if not out.ok:
            return out
        idx = int(ch['result'])
        if ret != keys[idx] and not (isinstance(ret, (int, np.integer)) and int(ret) == idx):
            return out.fail('mismatch:%s:returned_key' % prim, 'choice drew index %d (%r) but %r was returned' % (idx, keys[idx], ret))
        results.append(np.asarray(ch['p'], dtype=float))
    if case['shift'] != 0.0: out.classes.append('shifted')
    return out


def helpers(case, out):
    mech = mechload.load('mechanism')
    M = mech.Mechanism(1.0, 0, case['bounded'])
    fac = 2.0 if case['bounded'] else 1.0
    out.nontrivial = len(case['helper_calls']) >= 2
    for (s, eps, delta) in case['helper_calls']:
        b = M.laplace_noise_scale(s, eps)
        if b != fac * s / eps and abs(b - fac * s / eps) > 1e-15 * fac * s / eps:
            return out.fail('mismatch:laplace_noise_scale', 'laplace_noise_scale(%r,%r) = %r, expected %r (bounded=%r)' % (s, eps, b, fac * s / eps, case['bounded']))
        del mechload.CALIBRATOR_CALLS[:]
        g = M.gaussian_noise_scale(s, eps, delta)
        if mechload.CALIBRATOR_CALLS and mechload.CALIBRATOR_CALLS[-1] != (eps, delta):
            return out.fail('mismatch:gaussian_noise_scale:forwarding', 'calibrator called with %r, expected %r' % (mechload.CALIBRATOR_CALLS[-1], (eps, delta)))
        unit = math.sqrt(2 * math.log(1.25 / delta)) / eps
        if abs(g - fac * s * unit) > 1e-12 * fac * s * unit:
            return out.fail('mismatch:gaussian_noise_scale', 'gaussian_noise_scale(%r,%r,%r) = %r, expected sensitivity*%s*sigma = %r' % (s, eps, delta, g, fac, fac * s * unit))
        np.random.seed(case['np_seed'])
        with rngtap.Tap(wrap_noise=False) as tap:
            M.gaussian_noise(g, case['size']); M.laplace_noise(b, case['size'])
            sampler = M.best_noise_distribution(s, s, eps, delta)
            sampler(case['size'])
        ev = tap.events
        if len(ev) != 3 or ev[0]['kind'] != 'normal' or ev[1]['kind'] != 'laplace':
            return out.fail('mismatch:samplers:calls', 'unexpected random calls %s' % [e['kind'] for e in ev])
        if ev[0]['scale'] != g or ev[0]['size'] != case['size'] or ev[0]['loc'] != 0.0:
            return out.fail('mismatch:gaussian_noise', 'normal(loc=%r, scale=%r, size=%r) for sigma=%r size=%r' % (ev[0]['loc'], ev[0]['scale'], ev[0]['size'], g, case['size']))
        if ev[1]['scale'] != b or ev[1]['size'] != case['size'] or ev[1]['loc'] != 0.0:
            return out.fail('mismatch:laplace_noise', 'laplace(loc=%r, scale=%r, size=%r) for b=%r' % (ev[1]['loc'], ev[1]['scale'], ev[1]['size'], b))
        want = b if ev[2]['kind'] == 'laplace' else g
        if abs(ev[2]['scale'] - want) > 1e-12 * want or ev[2]['size'] != case['size']:
            return out.fail('mismatch:best_noise_distribution', '%s sampler drew with scale %r, helpers give %r' % (ev[2]['kind'], ev[2]['scale'], want))
    return out
