"""C17 - the convex region-graph oracle solves its variational problem."""
import itertools
import numpy as np
from hypothesis import strategies as st
from . import gen, oracles
from .common import Out, import_mbi, HarnessError

ID = 'C17'
RULE = ('Hypothesis draws a domain (2-5 attrs, sizes 1-3), 1-6 distinct cliques (trees, loops, dense, size-3 cliques '
        'whose pairwise intersections intersect again; attributes listed in any order), finite potentials of scale <=3 on '
        'any region (one region optionally shifted by a constant up to +-800 / 1e4), total in {1,10,1000,0.5} given to the constructor or assigned afterwards, damping in (0.05,0.9), and runs RegionGraph(convex=True) for up to 5000 '
        'sweeps with convergence 1e-9*total. Precondition "run to convergence": primal_feasibility <= 1e-9*total, otherwise '
        'the case is inconclusive. Oracle: an independently built region closure and the optimum of max sum <theta,b> + '
        'sum H(b) under local consistency, solved through its smooth dual (L-BFGS + BFGS, dual gradient < 1e-8). '
        'Checks: every region of the closure is answered; tables finite, >=0, sum to total; shared sub-regions agree; '
        'beliefs equal the optimum. Non-trivial = some region has >=2 parents; distinct by sha1.')
BUDGET = {'quick': 640, 'thorough': 8000}
TIME = {'quick': 110, 'thorough': 1500}


@st.composite
def cases(draw, tier='quick'):
    dom = draw(gen.domains(2, 5 if tier == 'quick' else 6, 1, 3, cap=243 if tier == 'quick' else 729))
    attrs = dom['attrs']
    shape_mode = draw(st.sampled_from(['free', 'free', 'triple_overlap', 'loop', 'chain', 'two_families']))
    if shape_mode == 'two_families':
        # ABC, ABD, AEF, AEG: region A has the two non-maximal parents AB and AE, which have no common ancestor
        dom = {'attrs': list(draw(st.permutations(gen.NAMES[:7]))), 'shape': [draw(st.sampled_from([1, 2, 2])) for _ in range(7)]}
        attrs = dom['attrs']
    perm = list(draw(st.permutations(attrs)))
    n = len(attrs)
    if shape_mode == 'triple_overlap' and n >= 4:
        a, b, c, d = perm[:4]
        cl = [[a, b, c], [a, b, d], [a, c, d]] + ([[perm[4], a]] if n >= 5 and draw(st.booleans()) else [])
    elif shape_mode == 'two_families':
        a, b, c, d, e, f, g = perm
        cl = [[a, b, c], [a, b, d], [a, e, f], [a, e, g]][:draw(st.integers(3, 4))] + ([[c, d]] if draw(st.booleans()) else [])
    elif shape_mode == 'loop' and n >= 3:
        cl = [[perm[i], perm[(i + 1) % n]] for i in range(n)]
    elif shape_mode == 'chain' and n >= 3:
        cl = [[perm[i], perm[i + 1]] for i in range(n - 1)]
    else:
        cl = draw(gen.clique_sets(attrs, max_cliques=6, max_clique_size=3, min_cliques=1))
    out = []
    for c in cl:
        c = list(draw(st.permutations(c)))
        if not any(set(c) == set(u) for u in out):
            out.append(c)
    return {'domain': dom, 'cliques': out, 'seed': draw(st.integers(0, 2**31 - 1)),
            'scale': draw(st.sampled_from([0.0, 0.5, 1.0, 3.0])), 'inner': draw(st.booleans()),
            'total': draw(st.sampled_from([1.0, 10, 1000.0, 0.5])), 'damping': draw(st.floats(0.05, 0.9)),
            # LocalInference assigns .total on an oracle object it was handed; a constant added to one region's potential
            # (the level mirror descent leaves behind) does not change the variational problem
            'total_set': draw(st.sampled_from(['ctor', 'ctor', 'assigned'])),
            'offset': draw(st.sampled_from([0.0, 0.0, 30.0, -30.0, 800.0, -800.0, 1e4])), 'offset_at': draw(st.integers(0, 50))}


def strategy(tier):
    return cases(tier)


def run_case(case):
    mbi = import_mbi()
    out = Out()
    attrs, shape = list(case['domain']['attrs']), list(case['domain']['shape'])
    sizes = dict(zip(attrs, shape))
    domain = mbi.Domain(attrs, shape)
    total = float(case['total'])
    cliques = [tuple(c) for c in case['cliques']]
    if case.get('total_set') == 'assigned':
        rg = mbi.RegionGraph(domain, cliques, convex=True, iters=5000, convergence=1e-9 * total, damping=case["damping"])
        rg.total = case['total']
        out.classes.append('total_assigned_after_construction')
    else:
        rg = mbi.RegionGraph(domain, cliques, case['total'], convex=True, iters=5000, convergence=1e-9 * total, damping=case["damping"])
    rng = np.random.Generator(np.random.PCG64(case['seed']))
    pot, theta = {}, {}
    off_r = rg.cliques[case.get('offset_at', 0) % len(rg.cliques)] if case.get('offset') else None
    if off_r is not None: out.classes.append('offset:%g' % case['offset'])
    for r in rg.cliques:
        shp = [sizes[a] for a in r]
        if case['inner'] or r in cliques:
            v = rng.standard_normal(size=shp) * case['scale']
        else:
            v = np.zeros(shp)
        pot[r] = mbi.Factor(domain.project(r), v.copy() + (case['offset'] if r == off_r else 0.0))
        theta[frozenset(r)] = (list(r), v)
    mu = rg.belief_propagation(mbi.CliqueVector(pot))
    closure = oracles.region_closure(cliques)
    have = {}
    for k in mu:
        have.setdefault(frozenset(k), []).append(k)
    # unconditional part
    for r in closure:
        if r not in have:
            return finish(out.fail('missing_region', 'no pseudo-marginal for region %s (cliques %s)' % (sorted(r), cliques)), rg, case)
    for k in mu:
        v = np.asarray(mu[k].values, dtype=float)
        if not np.all(np.isfinite(v)) or v.min() < 0:
            return finish(out.fail('invalid:table', 'table %s is not finite and non-negative' % (k,)), rg, case)
        if abs(float(v.sum()) - total) > 1e-8 * total:
            return finish(out.fail('invalid:sum', 'table %s sums to %r, total %r' % (k, float(v.sum()), total)), rg, case)
    feas = rg.primal_feasibility(mu)
    if not feas <= 1e-9 * total:
        # metamorphic: the algorithm is defined by attribute names, so listing every clique alphabetically (and
        # transposing its potential) is the same problem; it must not converge there and fail to converge here.
        cl2 = [tuple(sorted(c)) for c in cliques]
        if cl2 != cliques:
            rg2 = mbi.RegionGraph(domain, cl2, case['total'], convex=True, iters=5000, convergence=1e-9 * total, damping=case["damping"])
            pot2 = {}
            for r2 in rg2.cliques:
                src = [k for k in pot if set(k) == set(r2)]
                pot2[r2] = pot[src[0]].transpose(r2) if src else mbi.Factor.zeros(domain.project(r2))
            mu2 = rg2.belief_propagation(mbi.CliqueVector(pot2))
            if rg2.primal_feasibility(mu2) <= 1e-9 * total:
                return finish(out.fail('order_dependent_convergence', 'no convergence in 5000 sweeps (feasibility %g) with cliques %s, but the same problem with alphabetically listed cliques converges' % (feas, cliques)), rg, case)
        # "run to convergence": the iteration may also have become stationary at tables that do NOT agree (the library's
        # own stopping rule only looks at feasibility).  Continue from the warm messages and compare successive outputs.
        rg.iters = 300
        mu_a = rg.belief_propagation(mbi.CliqueVector(pot))
        mu_b = rg.belief_propagation(mbi.CliqueVector(pot))
        drift = max(float(np.max(np.abs(np.asarray(mu_a[k].values, float) - np.asarray(mu_b[k].values, float)))) for k in mu_a)
        feas2 = rg.primal_feasibility(mu_b)
        if drift <= 1e-10 * total and feas2 > 1e-6 * total:
            return finish(out.fail('stationary_but_inconsistent', 'after %d sweeps the tables no longer change (max change %.2g over 300 sweeps) but parents and children still disagree by %.3g on average (total %g; cliques %s)' % (
                5600, drift, feas2, total, cliques)), rg, case)
        out.inconclusive = True
        out.classes.append('not_converged')
        return finish(out, rg, case)
    # the answer handed back stays what it is when the oracle is asked again about other potentials
    held = {k: np.array(mu[k].values, dtype=float) for k in mu}
    rg.iters = 3
    rg.belief_propagation(mbi.CliqueVector({r: pot[r] * 0.5 + 0.25 for r in pot}))
    for k in held:
        if not np.array_equal(np.asarray(mu[k].values, dtype=float), held[k], equal_nan=True):
            return finish(out.fail('result_changed_by_later_call', 'the table of region %s returned earlier changed when the oracle was called again' % (k,)), rg, case)
    # (a) shared sub-regions agree
    keys = list(mu.keys())
    for x, y in itertools.combinations(keys, 2):
        sh = [a for a in x if a in y]
        if sh:
            ax = oracles.marg(np.asarray(mu[x].values, float), list(mu[x].domain.attrs), sh)
            ay = oracles.marg(np.asarray(mu[y].values, float), list(mu[y].domain.attrs), sh)
            if np.max(np.abs(ax - ay)) > 1e-7 * total:
                return finish(out.fail('inconsistent', 'tables %s and %s disagree on %s by %g (total %g)' % (x, y, sh, float(np.max(np.abs(ax - ay))), total)), rg, case)
    # (b) optimum of the convexified free energy
    ref, gn, prim = oracles.convex_free_energy(attrs, sizes, cliques, theta)
    if not gn < 1e-8:
        out.inconclusive = True; out.classes.append('oracle_not_converged')
        return finish(out, rg, case)
    for r in closure:
        k = have[r][0]
        got = np.asarray(mu[k].values, float) / total
        oa, ob = ref[r]
        want = oracles.marg(ob, oa, list(mu[k].domain.attrs))
        if np.max(np.abs(got - want)) > 1e-6:
            return finish(out.fail('not_optimal', 'region %s: normalised belief differs from the optimum of the convexified free energy by %g (cliques %s)' % (
                k, float(np.max(np.abs(got - want))), cliques)), rg, case)
    return finish(out, rg, case)


def finish(out, rg, case):
    multi = any(len(rg.parents[r]) >= 2 for r in rg.regions) or any(
        sum(1 for p in rg.regions if set(r) < set(p)) >= 2 for r in rg.regions)
    out.nontrivial = bool(multi) and not out.inconclusive
    out.classes += ['regions:%d' % min(len(rg.regions), 9)]
    if any(list(c) != sorted(c) for c in case['cliques']): out.classes.append('non_alphabetical_clique')
    return out


def extra_evidence(totals):
    return {}
