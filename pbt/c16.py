"""C16 - approximate marginal oracles are normalised, and exact on acyclic structures."""
import itertools
import numpy as np
from hypothesis import strategies as st
from . import gen, oracles
from .common import Out, import_mbi

ID = 'C16'
RULE = ('Hypothesis draws (mode norm) arbitrary clique lists (loops, dense, nested, singletons, size-1 attributes, any '
        'attribute order) with potentials of scale {0,1,10,1e3} on any region (40% of all cases with -inf cells or one forbidden attribute value, as LocalInference folds structural zeros into them; the all-zero assignment stays possible), totals 0.01..1e6, sweep counts '
        '{1,2,10,100} and two consecutive calls (warm messages) for RegionGraph(convex=False) and FactorGraph(convex=False): '
        'every table finite, >=0, sums to total. (mode gbp) clique sets built as the maximal cliques of a random clique '
        'tree (running intersection by construction, incl. nested separators three levels deep and disconnected parts), '
        'potentials on the cliques, 200 sweeps: equals the brute-force marginals. (mode lbp) random tree/forest factor '
        'graphs with optional unary factors, 2*#attrs+4 sweeps: equals the brute-force marginals; also after total is '
        're-assigned on the object. Non-trivial = >=3 cliques with tree depth >=2 (exactness) / a cycle in the clique '
        'graph (normalisation); distinct by sha1.')
BUDGET = {'quick': 2400, 'thorough': 48000}
TIME = {'quick': 110, 'thorough': 1500}


@st.composite
def clique_tree(draw, attrs, max_size=3, deep=False):
    """Maximal cliques with the running-intersection property, built as a clique tree."""
    pool = list(draw(st.permutations(list(attrs))))
    if deep:
        # nested separators: ABCP, ABCQ, ABR, AS ... (region graph four levels deep)
        k0 = min(4, len(pool) - 1)
        core = pool[:k0 - 1]; first = core + [pool[k0 - 1]]; pool = pool[k0:]
        cliques = [first]
        for sep_len in range(len(core), 0, -1):
            if not pool: break
            reps = draw(st.integers(1, 2)) if sep_len == len(core) else 1
            for _ in range(reps):
                if not pool: break
                cliques.append(core[:sep_len] + [pool.pop(0)])
        return [sorted(c) for c in cliques], len(cliques) - 1
    k0 = draw(st.integers(1, min(max_size, len(pool))))
    cliques = [pool[:k0]]; pool = pool[k0:]
    depth = {0: 0}
    while pool and len(cliques) < 6:
        pi = draw(st.integers(0, len(cliques) - 1))
        parent = cliques[pi]
        hi = min(len(parent) - 1, max_size - 1)
        sep_k = draw(st.integers(0, max(0, hi)))
        sep = list(draw(st.permutations(parent)))[:sep_k]
        new_k = draw(st.integers(1, min(max_size - len(sep), len(pool)))) if max_size - len(sep) >= 1 else 0
        if new_k == 0:
            break
        new = pool[:new_k]; pool = pool[new_k:]
        cl = sep + new
        if any(set(cl) <= set(c) or set(c) <= set(cl) for c in cliques):
            continue
        depth[len(cliques)] = depth[pi] + 1
        cliques.append(cl)
    return [sorted(c) for c in cliques], max(depth.values())


@st.composite
def factor_tree(draw, attrs):
    """Tree / forest factor graph: each new factor touches at most one already-used variable."""
    pool = list(draw(st.permutations(list(attrs))))
    used, cliques = [], []
    while pool and len(cliques) < 6:
        k = draw(st.integers(1, min(3, len(pool))))
        new = pool[:k]; pool = pool[k:]
        link = [draw(st.sampled_from(used))] if used and draw(st.integers(0, 3)) > 0 else []
        cl = list(draw(st.permutations(link + new)))
        cliques.append(cl); used += new
    for a in list(used):
        if draw(st.integers(0, 3)) == 0 and [a] not in cliques:
            cliques.append([a])
    return cliques


@st.composite
def cases(draw, tier='quick'):
    mode = draw(st.sampled_from(['norm_rg', 'norm_fg', 'gbp', 'gbp', 'gbp_deep', 'lbp', 'lbp']))
    if mode == 'gbp_deep':
        dom = draw(gen.domains(6, 8, 1, 2, cap=4096))
    elif mode == 'gbp' and draw(st.booleans()):
        dom = draw(gen.domains(6, 8, 1, 3, cap=4096))       # room for three-level region graphs with several branches
    else:
        dom = draw(gen.domains(2, 6, 1, 3, cap=4096))
    attrs = dom['attrs']
    depth = 0
    if mode.startswith('norm'):
        cliques = draw(gen.clique_sets(attrs, max_cliques=6, max_clique_size=3, min_cliques=1))
        uniq = []
        for c in cliques:
            if not any(set(c) == set(u) for u in uniq):
                uniq.append(c)
        cliques = uniq
    elif mode in ('gbp', 'gbp_deep'):
        cliques, depth = draw(clique_tree(attrs, max_size=3 if mode == 'gbp' else 4, deep=(mode == 'gbp_deep')))
    else:
        cliques = draw(factor_tree(attrs))
    return {'mode': mode, 'domain': dom, 'cliques': cliques, 'depth': depth, 'seed': draw(st.integers(0, 2**31 - 1)),
            'scale': draw(st.sampled_from([0.0, 1.0, 1.0, 10.0, 1e3])) if mode.startswith('norm') else draw(st.sampled_from([0.5, 1.0, 3.0])),
            'total': draw(st.one_of(st.sampled_from([1.0, 1, 100, 0.01, 1e6]), st.floats(0.01, 1e4))),
            'total2': draw(st.sampled_from([None, None, 40.0, 0.5])),
            'iters': draw(st.sampled_from([1, 2, 10, 100])), 'inner_pots': draw(st.booleans()),
            'minimal': draw(st.sampled_from([True, True, False])),
            # structural zeros as LocalInference folds them into the potentials: -inf cells / a whole forbidden value
            'ninf': draw(st.sampled_from([None, None, None, 'cells', 'slice']))}


def strategy(tier):
    return cases(tier)


def valid_tables(out, tag, mu, keys, total):
    for r in keys:
        v = np.asarray(mu[r].values, dtype=float)
        if not np.all(np.isfinite(v)):
            return out.fail('invalid:nonfinite:' + tag, 'table %s has non-finite entries' % (r,))
        if v.min() < 0:
            return out.fail('invalid:negative:' + tag, 'table %s has entry %r' % (r, float(v.min())))
        if abs(float(v.sum()) - total) > 1e-8 * total:
            return out.fail('invalid:sum:' + tag, 'table %s sums to %r, total %r' % (r, float(v.sum()), total))
    return out


def run_case(case):
    mbi = import_mbi()
    out = Out()
    # attribute names are multi-character strings built at run time, separately for the domain and for the cliques:
    # equal names, distinct string objects (as when a domain is loaded from JSON and cliques are typed as literals)
    attrs, shape = ['%s_%s' % (a, 'attr') for a in case['domain']['attrs']], list(case['domain']['shape'])
    sizes = dict(zip(attrs, shape))
    domain = mbi.Domain(attrs, shape)
    total = float(case['total'])
    mode = case['mode']
    cliques = [tuple('%s_%s' % (a, 'attr') for a in c) for c in case['cliques']]
    rng = np.random.Generator(np.random.PCG64(case['seed']))
    out.classes = ['mode:' + mode] + (['structural_zeros:' + case['ninf']] if case.get('ninf') else [])

    def pots_for(keys, only=None):
        d = {}
        for r in keys:
            shp = [sizes[a] for a in r]
            if only is None or r in only:
                v = rng.standard_normal(size=shp) * case['scale']
                kind = case.get('ninf')
                if kind == 'cells' and v.size > 1:
                    m = rng.random(size=shp) < 0.3
                    m[(0,) * len(shp)] = False          # the all-zero assignment always stays possible
                    v = np.where(m, -np.inf, v)
                elif kind == 'slice' and rng.random() < 0.5:
                    ax = [i for i, n_ in enumerate(shp) if n_ >= 2]
                    if ax:
                        i = ax[int(rng.integers(0, len(ax)))]
                        idx = [slice(None)] * len(shp); idx[i] = shp[i] - 1
                        v[tuple(idx)] = -np.inf
                d[r] = mbi.Factor(domain.project(r), v)
            else:
                d[r] = mbi.Factor.zeros(domain.project(r))
        return mbi.CliqueVector(d)

    if mode == 'norm_rg':
        rg = mbi.RegionGraph(domain, cliques, total, convex=False, iters=case['iters'], minimal=case.get('minimal', True))
        pot = pots_for(rg.cliques, None if case['inner_pots'] else set(cliques))
        mu = rg.belief_propagation(pot)
        valid_tables(out, 'gbp', mu, rg.cliques, total)
        if out.ok:
            mu = rg.belief_propagation(pots_for(rg.cliques))     # warm messages
            valid_tables(out, 'gbp:second_call', mu, rg.cliques, total)
        out.nontrivial = has_cycle(cliques)
    elif mode == 'norm_fg':
        fg = mbi.FactorGraph(domain, cliques, total, convex=False, iters=case['iters'])
        mu = fg.belief_propagation(pots_for(cliques))
        valid_tables(out, 'lbp', mu, cliques, total)
        if out.ok:
            mu = fg.belief_propagation(pots_for(cliques))
            valid_tables(out, 'lbp:second_call', mu, cliques, total)
        if out.ok:
            for a in [x for x in attrs if any(x in c for c in cliques)][:2]:
                v = fg.project([a]).values
                if not np.all(np.isfinite(v)) or abs(float(v.sum()) - total) > 1e-8 * total:
                    out.fail('invalid:project', 'FactorGraph.project(%s) sums to %r' % (a, float(np.sum(v))))
        out.nontrivial = has_cycle(cliques)
    elif mode in ('gbp', 'gbp_deep'):
        rg = mbi.RegionGraph(domain, cliques, total, convex=False, iters=200, minimal=case.get('minimal', True))
        if not case.get('minimal', True): out.classes.append('minimal=False')
        pot = pots_for(rg.cliques, set(cliques))
        mu = rg.belief_propagation(pot)
        P, _ = oracles.joint(attrs, shape, [(list(r), pot[r].values) for r in cliques], total)
        valid_tables(out, 'gbp', mu, rg.cliques, total)
        if out.ok:
            for r in rg.cliques:
                ok, why = oracles.close(mu[r].values, oracles.marg(P, attrs, list(r)), 1e-6, 1e-8 * total)
                if not ok:
                    out.fail('inexact:gbp', 'region %s of junction-tree-structured cliques %s: %s' % (r, cliques, why)); break
        levels = region_depth(rg)
        out.classes.append('region_depth:%d' % levels)
        out.nontrivial = len(cliques) >= 3 and case['depth'] >= 2
    else:
        n_iter = 2 * len(attrs) + 4
        fg = mbi.FactorGraph(domain, cliques, total, convex=False, iters=n_iter)
        pot = pots_for(cliques)
        if case['total2'] is not None:
            fg.total = case['total2']; total = float(case['total2'])      # LocalInference re-assigns .total on oracle objects
            out.classes.append('total_reassigned')
        saved = {r: pot[r].values.copy() for r in cliques}
        mu = fg.belief_propagation(pot)
        if case['seed'] % 2:
            mu = fg.belief_propagation(pot)        # estimation calls the oracle again and again with the same potentials object
            out.classes.append('lbp_called_twice')
        if any(not np.array_equal(pot[r].values, saved[r]) for r in cliques):
            return out.fail('mutated:potentials', "belief_propagation modified the caller's potentials")
        P, _ = oracles.joint(attrs, shape, [(list(r), saved[r]) for r in cliques], total)
        valid_tables(out, 'lbp', mu, cliques, total)
        if out.ok:
            for r in cliques:
                ok, why = oracles.close(mu[r].values, oracles.marg(P, attrs, list(r)), 1e-6, 1e-8 * total)
                if not ok:
                    out.fail('inexact:lbp', 'factor %s of tree factor graph %s: %s' % (r, cliques, why)); break
        if out.ok:
            used = [a for a in attrs if any(a in c for c in cliques)]
            for a in used[:3]:
                ok, why = oracles.close(fg.project([a]).values, oracles.marg(P, attrs, [a]), 1e-6, 1e-8 * total)
                if not ok:
                    out.fail('inexact:lbp:project', 'variable %s: %s' % (a, why)); break
        out.nontrivial = len(cliques) >= 3 and fg_depth(cliques) >= 2
    return out


def has_cycle(cliques):
    import networkx as nx
    G = nx.Graph()
    for c in cliques:
        for x, y in itertools.combinations(c, 2):
            G.add_edge(x, y)
    # cycle in the clique graph that is not inside one clique
    H = nx.Graph()
    for i, c in enumerate(cliques):
        H.add_node(('f', i))
        for a in c:
            H.add_edge(('f', i), ('v', a))
    return len(nx.cycle_basis(H)) > 0


def fg_depth(cliques):
    import networkx as nx
    H = nx.Graph()
    for i, c in enumerate(cliques):
        H.add_node(('f', i))
        for a in c:
            H.add_edge(('f', i), ('v', a))
    best = 0
    for comp in nx.connected_components(H):
        sub = H.subgraph(comp)
        if sub.number_of_nodes() > 1:
            best = max(best, nx.diameter(sub) // 2)
    return best


def region_depth(rg):
    import networkx as nx
    try:
        return nx.dag_longest_path_length(rg.G) + 1
    except Exception:
        return 0
