"""C09 - known totals are honoured; unknown totals are the best linear estimate."""
import ast, os, math
import numpy as np
from hypothesis import strategies as st
from . import gen, oracles
from .common import Out, import_mbi, REPO

ID = 'C09'
RULE = ('Hypothesis draws 1-3 attributes (sizes 1-64, product of a measured projection <= 64), 1-4 measurements whose '
        'query comes from a family with a known answer to "is the ones vector in the row space": identity, c*I, prefix, '
        'all-ranges, [I;1^T], Gaussian with prescribed singular values in [0.5,5] (square/tall), single total query, '
        'R(I-11^T/n) (rank-deficient, ones orthogonal to the row space); each as ndarray/csr/LinearOperator; noise scales '
        'log-uniform; y = Qx + noise or noise-free with x the marginal of an N-record dataset; total given (ints/floats '
        'incl. <1) or omitted. Oracle: dense pinv reference, inverse-variance combination, max(1,.). Applied to '
        'FactoredInference, LocalInference, public_inference.estimate_total and mixture_inference.estimate_total '
        '(AST-extracted). Non-trivial = n>=8 with a non-diagonal full-rank Q, or a mix of expressing and non-expressing '
        'measurements; distinct by sha1.')
BUDGET = {'quick': 16000, 'thorough': 300000}
TIME = {'quick': 110, 'thorough': 1500}
ASSUMPTIONS = ['mixture_inference.estimate_total is executed from an AST extraction of the function (jax is not installed)']

FAMS = ['identity', 'scaled', 'prefix', 'ranges', 'eye_plus_total', 'gauss_square', 'gauss_tall', 'total', 'deficient']
EXPRESSING = {f: f != 'deficient' for f in FAMS}


@st.composite
def cases(draw, tier='quick'):
    k = draw(st.integers(1, 3))
    names = list(draw(st.permutations(gen.NAMES[:4])))[:k]
    sizes = []
    for i in range(k):
        sizes.append(draw(st.one_of(st.integers(1, 8), st.integers(1, 64))) if i == 0 else draw(st.integers(1, 8)))
    meas = []
    for _ in range(draw(st.integers(1, 4))):
        proj = draw(gen.ordered_subset(names, 1, 2))
        n = int(np.prod([sizes[names.index(a)] for a in proj]))
        if n > 64:
            proj = proj[:1]
        meas.append({'proj': proj, 'fam': draw(st.sampled_from(FAMS)), 'form': draw(st.sampled_from(['dense', 'csr', 'linop'])),
                     'seed': draw(st.integers(0, 2**31 - 1)), 'c': draw(st.sampled_from([0.25, 2.0, 7.0])),
                     'noise': float(10 ** draw(st.floats(-1, 1.5))), 'noise_free': False})
    nf = draw(st.booleans())
    for m in meas:
        m['noise_free'] = nf
    return {'domain': {'attrs': names, 'shape': sizes}, 'meas': meas, 'N': draw(st.one_of(st.integers(1, 5), st.integers(1, 2000))),
            'data_seed': draw(st.integers(0, 2**31 - 1)),
            'total': draw(st.one_of(st.none(), st.none(), st.sampled_from([1, 10, 0.5, 1000.0, 37, 2.25]))),
            'target': draw(st.sampled_from(['factored', 'factored', 'local', 'public', 'mixture'])),
            'oracle': draw(st.sampled_from(['convex', 'approx', 'pairwise']))}


def strategy(tier):
    return cases(tier)


def family(fam, n, seed, c):
    rng = np.random.Generator(np.random.PCG64(seed))
    if fam == 'identity': return np.eye(n)
    if fam == 'scaled': return c * np.eye(n)
    if fam == 'prefix': return np.tril(np.ones((n, n)))
    if fam == 'ranges':
        rows = []
        for i in range(n):
            for j in range(i, n):
                r = np.zeros(n); r[i:j + 1] = 1; rows.append(r)
        if len(rows) > 200:
            idx = rng.choice(len(rows), 200, replace=False)
            rows = [rows[i] for i in sorted(idx)] + [np.eye(n)[i] for i in range(n)]
        return np.array(rows)
    if fam == 'eye_plus_total': return np.vstack([np.eye(n), np.ones((1, n))])
    if fam in ('gauss_square', 'gauss_tall'):
        m = n if fam == 'gauss_square' else n + 1 + int(rng.integers(0, 4))
        U, _ = np.linalg.qr(rng.standard_normal(size=(m, m)))
        V, _ = np.linalg.qr(rng.standard_normal(size=(n, n)))
        sv = rng.uniform(0.5, 5.0, size=n)
        return U[:, :n] @ np.diag(sv) @ V.T
    if fam == 'total': return np.ones((1, n))
    if fam == 'deficient':
        r = max(1, n - 1)
        R = rng.standard_normal(size=(r, n))
        return R @ (np.eye(n) - np.ones((n, n)) / n) if n > 1 else np.zeros((1, 1))
    raise ValueError(fam)


def wrap(Qd, form):
    from scipy import sparse
    from scipy.sparse.linalg import aslinearoperator
    if form == 'csr': return sparse.csr_matrix(Qd)
    if form == 'linop': return aslinearoperator(Qd.copy())
    return Qd.copy()


_mix = {}


def mixture_estimate_total():
    """estimate_total from src/mbi/mixture_inference.py, extracted with ast (the module needs jax)."""
    path = os.path.join(REPO, 'src', 'mbi', 'mixture_inference.py')
    key = (path, os.path.getmtime(path))
    if key not in _mix:
        tree = ast.parse(open(path).read())
        fn = [n for n in tree.body if isinstance(n, ast.FunctionDef) and n.name == 'estimate_total']
        if not fn:
            from .common import HarnessError
            raise HarnessError('estimate_total not found in mixture_inference.py')
        mod = ast.Module(body=fn, type_ignores=[])
        from scipy.sparse.linalg import lsmr
        ns = {'np': np, 'lsmr': lsmr}
        exec(compile(mod, path, 'exec'), ns)
        _mix.clear(); _mix[key] = ns['estimate_total']
    return _mix[key]


def run_case(case):
    mbi = import_mbi()
    out = Out()
    attrs, shape = list(case['domain']['attrs']), list(case['domain']['shape'])
    domain = mbi.Domain(attrs, shape)
    rng = np.random.Generator(np.random.PCG64(case['data_seed']))
    N = case['N']
    recs = np.stack([rng.integers(0, s, size=N) for s in shape], axis=1)
    X = np.zeros(shape)
    for r in recs:
        X[tuple(r)] += 1
    ms, refs = [], []
    nontriv_q = False
    for m in case['meas']:
        proj = list(m['proj'])
        n = int(np.prod([shape[attrs.index(a)] for a in proj]))
        Qd = family(m['fam'], n, m['seed'], m['c'])
        x = oracles.marg(X, attrs, proj).flatten()
        nr = np.random.Generator(np.random.PCG64(m['seed'] + 1))
        y = Qd @ x + (0.0 if m['noise_free'] else m['noise']) * nr.standard_normal(size=Qd.shape[0])
        ms.append((wrap(Qd, m['form']), y, m['noise'], tuple(proj)))
        expressing = EXPRESSING[m['fam']] or n == 1 and m['fam'] == 'deficient' and False
        if m['fam'] == 'deficient' and n == 1:
            expressing = False       # Q = [[0]]
        if expressing:
            v = np.linalg.pinv(Qd.T) @ np.ones(n)
            refs.append((m['noise'] ** 2 * float(v @ v), float(v @ y)))
        if n >= 8 and m['fam'] in ('prefix', 'ranges', 'eye_plus_total', 'gauss_square', 'gauss_tall'):
            nontriv_q = True
    kinds = set(EXPRESSING[m['fam']] for m in case['meas'])
    out.nontrivial = nontriv_q or len(kinds) == 2
    out.classes = ['target:' + case['target'], 'given' if case['total'] is not None else 'omitted'] + (['noise_free'] if case['meas'][0]['noise_free'] else [])
    if refs:
        var = 1.0 / sum(1.0 / v for v, _ in refs)
        est = var * sum(e / v for v, e in refs)
        ref_total = max(1.0, est)
    else:
        ref_total = 1.0
    target = case['target']
    given = case['total']

    def check_total(got, tag):
        if given is not None:
            if got != given:
                out.fail('mismatch:given_total:' + tag, 'total %r supplied, model.total = %r' % (given, got))
        else:
            if not np.isfinite(got) or abs(got - ref_total) > 1e-6 * ref_total:
                out.fail('mismatch:estimated_total:' + tag, 'total %r, reference %r (families %s, sizes %s)' % (
                    got, ref_total, [m['fam'] for m in case['meas']], [q[0].shape for q in ms]))
            elif case['meas'][0]['noise_free'] and refs and abs(got - N) > 1e-6 * N:
                out.fail('mismatch:noise_free_total:' + tag, 'noise-free measurements of %d records gave total %r' % (N, got))

    if target == 'factored':
        eng = mbi.FactoredInference(domain, iters=1, warm_start=bool(case['N'] % 2))
        if case['data_seed'] % 3 == 0:
            eng.estimate(ms, total=(given or 1) * 3 + 7)        # the same estimator was used before with another total
            out.classes.append('prior_call_other_total')
        model = eng.estimate(ms, total=given)
        check_total(model.total, 'factored')
        if out.ok:
            for q in ms:
                s = float(model.project(q[3]).values.sum())
                if abs(s - float(model.total)) > 1e-6 * float(model.total):
                    out.fail('mismatch:answer_sum', 'answer on %s sums to %r, total %r' % (q[3], s, model.total)); break
    elif target == 'local':
        oracle = case['oracle']
        if case['data_seed'] % 3 == 1:
            # a marginal-oracle object built by the caller (with a total of its own) instead of a name
            cl_ = [q[3] for q in ms]
            oracle = (mbi.FactorGraph(domain, cl_, 7.0, convex=False, iters=1) if oracle == 'pairwise' else
                      mbi.RegionGraph(domain, cl_, 7.0, convex=(oracle == 'convex'), iters=1))
            if getattr(oracle, 'potentials', None) is None:      # FactorGraph leaves this to its caller
                oracle.potentials = mbi.CliqueVector.zeros(domain, oracle.cliques)
            out.classes.append('oracle_object')
        eng = mbi.LocalInference(domain, iters=1, marginal_oracle=oracle)
        model = eng.estimate(ms, total=given)
        check_total(model.total, 'local')
        if out.ok:
            for q in ms:
                s = float(model.project(q[3]).values.sum())
                if abs(s - float(model.total)) > 1e-6 * float(model.total):
                    out.fail('mismatch:answer_sum:local', 'answer on %s sums to %r, total %r' % (q[3], s, model.total)); break
    elif target == 'public':
        from mbi import public_inference
        if given is None:
            check_total(public_inference.estimate_total(ms), 'public')
        else:
            out.classes.append('n/a')
    else:
        if given is None:
            check_total(mixture_estimate_total()(ms), 'mixture')
        else:
            out.classes.append('n/a')
    return out
