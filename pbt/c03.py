"""C03 - estimation attains the global optimum over all distributions."""
import numpy as np
from hypothesis import strategies as st
from . import gen, oracles, inf
from .common import Out, import_mbi

ID = 'C03'
RULE = ('Hypothesis draws a domain (2-4 attrs, sizes 1-4, joint <= 200 cells), 1-5 measurements (overlapping / nested / '
        'cyclic / duplicated / re-ordered projections; queries none, identity, sparse, dense Gaussian, prefix, operator, '
        'total; independent noise scales in [0.1,10]), y = Q x_true + noise, total known or omitted, solver in {MD,RDA,IG}; '
        '40% of cases are preceded by unrelated estimation activity on another engine (L1 / RDA / warm IG) in the same process. '
        'Oracle: own accelerated projected-gradient solver on the scaled simplex with a Frank-Wolfe duality-gap '
        'certificate f_lo <= f* <= f_hi. Loss is recomputed from model.project answers. Violations: loss below f_lo, loss '
        'above the uniform start, or a plateau above the optimum after escalating iterations (500, 2000, 8000). '
        'Non-trivial = >=2 measurements with overlapping, non-nested projections or unequal noise scales, and the '
        'optimum improves on uniform by > 0.1%; distinct by sha1.')
BUDGET = {'quick': 256, 'thorough': 6400}
TIME = {'quick': 110, 'thorough': 1700}
LEVELS = (500, 2000, 8000)


@st.composite
def cases(draw, tier='quick'):
    case = draw(inf.est_cases(min_attrs=2, max_attrs=4, max_size=4, min_size=draw(st.sampled_from([2, 2, 2, 1])), cap=200 if tier == 'quick' else 600, min_m=1, max_m=5 if tier == 'quick' else 7, zeros=False, iters=(500,),
                              totals=(1.0, 10, 1000.0, 37.5, None)))
    case['stepsize'] = None
    # other estimation activity earlier in the same process (another engine, another problem): must not matter
    case['prior'] = draw(st.sampled_from([None] * 6 + ['l1_md', 'l1_md_step', 'l2_rda', 'l2_ig_warm']))
    return case


def strategy(tier):
    return cases(tier)


def prior_activity(mbi, kind):
    """A small unrelated estimation on a separate engine object.  'l1_md' is the combination the library rejects with an
    assertion (L1 needs an explicit step size): a rejected call is part of a realistic process history too."""
    dom = mbi.Domain(['p', 'q'], [2, 3])
    meas = [(np.eye(2), np.array([3.0, 6.5]), 1.0, ('p',)), (np.eye(3), np.array([1.0, 5.0, 4.0]), 2.0, ('q',)),
            (np.eye(6), np.array([1.0, 1.0, 1.0, 0.0, 4.0, 3.0]), 1.5, ('p', 'q'))]
    if kind == 'l1_md':
        try:
            mbi.FactoredInference(dom, metric='L1', iters=3).estimate(meas, total=10.0)
        except AssertionError:
            pass
    elif kind == 'l1_md_step':
        mbi.FactoredInference(dom, metric='L1', iters=3).estimate(meas, total=10.0, options={'stepsize': 0.01})
    elif kind == 'l2_rda':
        mbi.FactoredInference(dom, iters=3).estimate(meas, total=10.0, engine='RDA')
    elif kind == 'l2_ig_warm':
        e = mbi.FactoredInference(dom, iters=3, warm_start=True)
        e.estimate(meas[:2], engine='IG'); e.estimate(meas, engine='IG')


def attempt(mbi, case, domain, meas, iters):
    c = dict(case); c['iters'] = iters
    eng = inf.make_engine(mbi, c, domain)
    return inf.run_estimate(mbi, c, eng, meas)


def answers_loss(out, model, meas):
    def fn(proj):
        f = model.project(tuple(proj))
        if tuple(f.domain.attrs) != tuple(proj):
            out.fail('mismatch:axes', 'project(%s) returned axes %s' % (proj, f.domain.attrs))
        return f.values
    return inf.loss_from_answers(meas, fn)


def run_case(case):
    mbi = import_mbi()
    out = Out()
    attrs, shape, X, meas = inf.prepare(case)
    out.classes = ['solver:' + case['solver'], 'total:' + ('given' if case['total'] is not None else 'estimated')]
    if not meas:
        out.classes.append('no_usable_measurements'); return out
    domain = mbi.Domain(attrs, shape)
    A, b = inf.stacked(meas, attrs, shape)
    if case.get('prior'):
        prior_activity(mbi, case['prior'])
        out.classes.append('prior:' + case['prior'])
    excess = []
    thetas = []
    model = None
    for T in LEVELS:
        model = attempt(mbi, case, domain, meas, T)
        tot = float(model.total)
        if len(excess) == 0:
            p, f_hi, gap = oracles.simplex_qp(A, b, tot)
            n = A.shape[1]
            f_unif = 0.5 * float(np.sum((A @ np.full(n, tot / n) - b) ** 2))
            if not gap <= 1e-9 * (f_unif + 1.0):
                out.inconclusive = True; out.classes.append('oracle_gap_too_large'); return out
            f_lo = f_hi - gap
        L = answers_loss(out, model, meas)
        if not out.ok: return out
        out.extra['theta_offset'] = inf.theta_offset(model)
        snap = np.concatenate([np.where(np.isfinite(model.potentials[c].values), model.potentials[c].values, 0.0).flatten() for c in model.cliques])
        if thetas and thetas[-1].shape == snap.shape and float(np.max(np.abs(thetas[-1] - snap))) < 0.05 * (float(np.ptp(snap)) + 1.0) and case['solver'] == 'MD':
            out.extra['md_step_collapsed'] = True      # root-cause signature of F21: the potentials do not move between T/4 and T iterations
        thetas.append(snap)
        if not np.isfinite(L):
            return out.fail('invalid:loss', 'loss recomputed from the model answers is %r' % L)
        if L < f_lo - 1e-7 * (f_unif + 1.0):
            return out.fail('below_optimum', 'loss %r from the model answers is below the certified minimum %r over all non-negative tables (answers are not the marginals of any distribution with this total); T=%d' % (L, f_lo, T))
        floor = inf.loss_floor(meas, tot)
        if L > f_unif * (1 + 1e-9) + floor:
            return out.fail('worse_than_uniform', 'loss %r exceeds the loss %r of the uniform starting point; T=%d' % (L, f_unif, T))
        denom = f_unif - f_hi
        if denom <= 1e-3 * f_unif or denom <= 1e3 * floor:
            out.classes.append('uniform_near_optimal')
            e = 0.0 if L - f_hi <= 1e-6 * f_unif + 1e3 * floor else (L - f_hi) / max(denom, 1e-300)
        else:
            e = (L - f_hi) / denom
        if L - f_hi <= 1e-4:
            e = min(e, 0.0) if e < 0 else 0.0     # within 1e-4 (in units of noise-normalised squared error) of the optimum: attained
        excess.append(e)
        if e <= 1e-3:
            break
    out.classes.append('iters_needed:%d' % LEVELS[len(excess) - 1])
    if excess[-1] > 1e-3:
        if len(excess) >= 2 and excess[-1] > excess[-2] / 2:
            out.fail('plateau_above_optimum', 'relative excess over the certified optimum %s at iterations %s: not converging (f*=%r, f_unif=%r)' % (
                ['%.3g' % e for e in excess], list(LEVELS[:len(excess)]), f_hi, f_unif))
        else:
            out.inconclusive = True; out.classes.append('still_decreasing_at_budget')
    projs = [set(m.proj) for m in meas]
    overlap = any((a & b_) and not a <= b_ and not b_ <= a for i, a in enumerate(projs) for b_ in projs[i + 1:])
    out.nontrivial = (overlap or len(set(m.noise for m in meas)) > 1) and len(meas) >= 2 and (f_unif - f_hi) > 1e-3 * f_unif
    if overlap: out.classes.append('overlapping_projections')
    return out


def _md_stalled(case, outc):
    return case.get('solver') == 'MD' and outc.extra.get('theta_offset', 0.0) >= 1e6


def _md_collapsed(case, outc):
    if case.get('solver') != 'MD' or case.get('stepsize') is not None:
        return False
    if outc.extra.get('md_step_collapsed'):
        return True
    # the input region in which the initial step 1/total^2 is far below what the gradient needs: large units
    tot = case.get('total')
    return tot is not None and float(tot) >= 1e4 and all(m['noise'] >= 1e3 for m in case.get('meas', []))


KNOWN = {'md_step_doubling': _md_stalled, 'md_step_collapsed': _md_collapsed}
