"""C12 - every constructed junction tree is valid, with a valid message schedule."""
import itertools
import numpy as np
from hypothesis import strategies as st
from . import gen
from .common import Out, import_mbi

ID = 'C12'
RULE = ('Exhaustive part: every labelled graph on n<=5 attributes (edges as 2-cliques) x every elimination order given as '
        'a permutation, plus order modes None and int once per graph with two size vectors (thorough: 3-clique masks, '
        'all labelled 6-node graphs x 720 orders under a time cap). Generated part: Hypothesis draws 2-10 attributes (1 case in 12: 40-80 attributes, random tree of pairs plus triangles), '
        'clique lists (sizes 1-4, duplicates, nested, any internal order) and order mode None / permutation / int k with a '
        'drawn numpy seed. Oracle: validity predicate (tree, cover, maximality, running intersection, schedule, '
        'separators, neighbours). Non-trivial = the elimination needs fill-in under the order used, or the graph has '
        '>=2 components with an edge; distinct = distinct (graph, order) pairs / sha1 of the case.')
BUDGET = {'quick': 3000, 'thorough': 60000}
TIME = {'quick': 110, 'thorough': 1500}
EXH_TIME_FRACTION = 0.6
EXH_NAMES = ['c', 'a', 'e', 'b', 'd', 'f']


# ----------------------------------------------------------------------------- validity predicate

def validate(attrs, cliques, jt):
    """Return None if jt is a valid junction tree with valid schedule, else (kind, detail)."""
    nodes = jt.maximal_cliques()
    tree = jt.tree
    tn = list(tree.nodes())
    if sorted(map(tuple, nodes)) != sorted(map(tuple, tn)) or len(set(nodes)) != len(nodes):
        return 'nodes', 'maximal_cliques() %s vs tree nodes %s' % (nodes, tn)
    if not all(isinstance(n, tuple) for n in nodes):
        return 'nodes', 'nodes are not tuples'
    for n in nodes:
        if len(set(n)) != len(n) or not set(n) <= set(attrs):
            return 'nodes', 'bad node %s' % (n,)
    edges = [(a, b) for a, b in tree.edges()]
    if len(edges) != len(nodes) - 1:
        return 'tree', '|E|=%d |V|=%d' % (len(edges), len(nodes))
    adj = {n: set() for n in nodes}
    for a, b in edges:
        if a == b:
            return 'tree', 'self loop'
        adj[a].add(b); adj[b].add(a)
    # connected
    seen = {nodes[0]}; stack = [nodes[0]]
    while stack:
        x = stack.pop()
        for y in adj[x]:
            if y not in seen:
                seen.add(y); stack.append(y)
    if len(seen) != len(nodes):
        return 'tree', 'not connected'
    sets = {n: frozenset(n) for n in nodes}
    for cl in cliques:
        if not any(set(cl) <= sets[n] for n in nodes):
            return 'cover', 'input clique %s not contained in any node of %s' % (cl, nodes)
    for a in attrs:
        if not any(a in sets[n] for n in nodes):
            return 'cover', 'attribute %s in no node' % a
    for x, y in itertools.permutations(nodes, 2):
        if sets[x] <= sets[y]:
            return 'maximal', 'node %s contained in %s' % (x, y)
    # running intersection: nodes containing a induce a connected subtree
    for a in attrs:
        holders = [n for n in nodes if a in sets[n]]
        hs = set(holders)
        seen = {holders[0]}; stack = [holders[0]]
        while stack:
            x = stack.pop()
            for y in adj[x]:
                if y in hs and y not in seen:
                    seen.add(y); stack.append(y)
        if len(seen) != len(holders):
            return 'running_intersection', 'nodes containing %s are not connected: %s in tree %s' % (a, holders, edges)
    # schedule
    mp = jt.mp_order()
    want = set(edges) | set((b, a) for a, b in edges)
    if len(mp) != len(want) or set(mp) != want:
        return 'schedule', 'mp_order %s does not list each direction of each edge once' % (mp,)
    pos = {m: i for i, m in enumerate(mp)}
    for (i, j) in mp:
        for k in adj[i]:
            if k != j and pos[(k, i)] > pos[(i, j)]:
                return 'schedule', 'message %s sent before its dependency %s' % ((i, j), (k, i))
    sep = jt.separator_axes()
    if set(sep.keys()) != want:
        return 'separators', 'separator_axes keys differ from the messages'
    for (i, j), s in sep.items():
        if set(s) != (sets[i] & sets[j]) or len(set(s)) != len(s):
            return 'separators', 'separator of %s is %s' % ((i, j), s)
    nb = jt.neighbors()
    if set(nb.keys()) != set(nodes) or any(set(nb[n]) != adj[n] for n in nodes):
        return 'neighbors', 'neighbors() differs from tree adjacency'
    return None


def needs_fill(attrs, cliques, order):
    """Own elimination simulation: does eliminating in `order` add an edge?"""
    adj = {a: set() for a in attrs}
    for cl in cliques:
        for x, y in itertools.combinations(cl, 2):
            adj[x].add(y); adj[y].add(x)
    fill = False
    for v in order:
        nb = list(adj[v])
        for x, y in itertools.combinations(nb, 2):
            if y not in adj[x]:
                adj[x].add(y); adj[y].add(x); fill = True
        for x in nb:
            adj[x].discard(v)
        del adj[v]
    return fill


def components_with_edge(attrs, cliques):
    parent = {a: a for a in attrs}
    def find(x):
        while parent[x] != x:
            parent[x] = parent[parent[x]]; x = parent[x]
        return x
    has_edge = False
    for cl in cliques:
        for x in cl[1:]:
            has_edge = True
            parent[find(x)] = find(cl[0])
    return has_edge and len(set(find(a) for a in attrs)) >= 2


# ----------------------------------------------------------------------------- exhaustive part

def exhaustive(tier):
    items = []
    for n in range(1, 6):
        ne = n * (n - 1) // 2
        tot = 2 ** ne
        step = 16 if n == 5 else tot
        for lo in range(0, tot, step):
            items.append({'n': n, 'lo': lo, 'hi': min(tot, lo + step), 'tri': False})
    if tier == 'thorough':
        for lo in range(0, 1024, 16):
            items.append({'n': 5, 'lo': lo, 'hi': lo + 16, 'tri': True})
        for lo in range(0, 32768, 64):
            items.append({'n': 6, 'lo': lo, 'hi': lo + 64, 'tri': False})
    return items


def run_exhaustive(item):
    mbi = import_mbi()
    from mbi.junction_tree import JunctionTree
    n = item['n']
    attrs = EXH_NAMES[:n]
    pairs = list(itertools.combinations(attrs, 2))
    perms = list(itertools.permutations(attrs))
    size_vecs = [[2] * n, [(i * 2) % 5 + 1 for i in range(n)], [5 - i % 4 for i in range(n)]]
    label = 'n=%d%s' % (n, '+triangles' if item['tri'] else '')
    n_ev = n_nt = 0
    fails = []
    sample = None
    for mask in range(item['lo'], item['hi']):
        edges = [list(p) for b, p in enumerate(pairs) if mask >> b & 1]
        cliques = [e if (i + mask) % 2 else e[::-1] for i, e in enumerate(edges)]
        if item['tri']:
            # merge every triangle whose three edges are present into a 3-clique (mask bits choose which)
            es = set(map(frozenset, edges))
            tri = [t for t in itertools.combinations(attrs, 3) if all(frozenset(p) in es for p in itertools.combinations(t, 2))]
            if not tri:
                continue
            cliques = cliques + [list(t)[::-1] if k % 2 else list(t) for k, t in enumerate(tri) if (mask * 2654435761 >> k) & 1 or k == 0]
        domain = mbi.Domain(attrs, size_vecs[0])
        comp = components_with_edge(attrs, cliques)
        for perm in perms:
            jt = JunctionTree(domain, cliques, list(perm))
            n_ev += 1
            nt = comp or needs_fill(attrs, cliques, perm)
            n_nt += 1 if nt else 0
            bad = validate(attrs, cliques, jt)
            if bad:
                case = {'domain': {'attrs': attrs, 'shape': size_vecs[0]}, 'cliques': cliques,
                        'order': {'mode': 'perm', 'perm': list(perm)}, 'np_seed': 0}
                fails.append((case, {'ok': False, 'kind': 'invalid:' + bad[0], 'where': '', 'detail': bad[1], 'nontrivial': nt, 'classes': [], 'inconclusive': False}))
                if len(fails) > 20:
                    return n_ev, n_nt, fails, sample, label
            elif sample is None and nt and len(cliques) >= 4:
                sample = {'cliques': cliques, 'order': list(perm), 'nodes': [list(x) for x in jt.maximal_cliques()]}
        for sv in size_vecs[1:]:
            dom2 = mbi.Domain(attrs, sv)
            for mode in (None, 2):
                np.random.seed(mask)
                jt = JunctionTree(dom2, [tuple(c) for c in cliques], mode)
                n_ev += 1
                nt = comp or needs_fill(attrs, cliques, jt.elimination_order)
                n_nt += 1 if nt else 0
                bad = validate(attrs, cliques, jt)
                if bad:
                    case = {'domain': {'attrs': attrs, 'shape': sv}, 'cliques': cliques,
                            'order': {'mode': 'none'} if mode is None else {'mode': 'int', 'k': 2}, 'np_seed': mask}
                    fails.append((case, {'ok': False, 'kind': 'invalid:' + bad[0], 'where': '', 'detail': bad[1], 'nontrivial': nt, 'classes': [], 'inconclusive': False}))
    return n_ev, n_nt, fails, sample, label


# ----------------------------------------------------------------------------- generated part

@st.composite
def cases(draw, tier='quick'):
    if draw(st.integers(0, 11)) == 0:
        return draw(wide_cases())
    dom = draw(gen.domains(2, 10, 1, 5, cap=10**9))
    if draw(st.integers(0, 3)) == 0:
        dom['shape'] = [draw(st.sampled_from([1, 2, 7, 40, 100])) for _ in dom['shape']]     # construction only looks at sizes
    attrs = dom['attrs']
    cliques = draw(gen.clique_sets(attrs, max_cliques=10, max_clique_size=4))
    m = draw(st.sampled_from(['none', 'perm', 'perm_tuple', 'int']))
    o = {'mode': m}
    if m.startswith('perm'):
        o['perm'] = list(draw(st.permutations(attrs)))
    if m == 'int':
        o['k'] = draw(st.integers(1, 5))
    return {'domain': dom, 'cliques': cliques, 'order': o, 'np_seed': draw(st.integers(0, 2**31 - 1))}


@st.composite
def wide_cases(draw):
    """Many attributes (up to 80, as in census-like data): a random recursive tree of pairs plus a few triangles."""
    n = draw(st.integers(40, 80))
    names = ['x%02d' % i for i in range(n)]
    perm = list(draw(st.permutations(names)))
    cliques = []
    for i in range(1, n):
        j = draw(st.integers(max(0, i - 4), i - 1))
        e = [perm[j], perm[i]]
        cliques.append(e if draw(st.booleans()) else e[::-1])
    for _ in range(draw(st.integers(0, 3))):
        i = draw(st.integers(2, n - 1))
        cliques.append([perm[i], perm[i - 1], perm[i - 2]])
    m = draw(st.sampled_from(['none', 'perm', 'int']))
    o = {'mode': m}
    if m == 'perm': o['perm'] = list(draw(st.permutations(names)))
    if m == 'int': o['k'] = draw(st.integers(1, 2))
    return {'domain': {'attrs': names, 'shape': [draw(st.sampled_from([2, 2, 3]))] * n}, 'cliques': cliques, 'order': o,
            'np_seed': draw(st.integers(0, 2**31 - 1)), 'wide': True}


def strategy(tier):
    return cases(tier)


def run_case(case):
    mbi = import_mbi()
    from mbi.junction_tree import JunctionTree
    out = Out()
    attrs = list(case['domain']['attrs'])
    domain = mbi.Domain(attrs, case['domain']['shape'])
    o = case['order']
    arg = None if o['mode'] == 'none' else (list(o['perm']) if o['mode'] == 'perm' else (tuple(o['perm']) if o['mode'] == 'perm_tuple' else int(o['k'])))
    cliques = [list(c) if i % 2 else tuple(c) for i, c in enumerate(case['cliques'])]
    np.random.seed(case['np_seed'])
    jt = JunctionTree(domain, cliques, arg)
    bad = validate(attrs, case['cliques'], jt)
    if bad:
        out.fail('invalid:' + bad[0], bad[1])
    eo = list(jt.elimination_order)
    if out.ok and sorted(eo) != sorted(attrs):
        out.fail('invalid:elimination_order', 'elimination order %s is not a permutation of the attributes' % (eo,))
    if out.ok and o['mode'].startswith('perm') and eo != list(o['perm']):
        out.fail('invalid:elimination_order', 'given order not used')
    fill = sorted(eo) == sorted(attrs) and needs_fill(attrs, case['cliques'], eo)
    comp = components_with_edge(attrs, case['cliques'])
    out.nontrivial = bool(fill or comp)
    out.classes = ['order:' + o['mode']] + (['fill_in'] if fill else []) + (['multi_component'] if comp else []) + ['n_attrs>=7'] * (len(attrs) >= 7) + ['n_attrs>64'] * (len(attrs) > 64)
    return out
