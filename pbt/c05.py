"""C05 - mechanisms never spend more privacy than the (epsilon, delta) budget."""
import math
import numpy as np
from hypothesis import strategies as st
from . import mech, oracles
from .common import Out, import_mbi

ID = 'C05'
RULE = ('Hypothesis draws a mechanism (MST, AIM, MWEM+PGM gaussian/laplace bounded/unbounded, Adaptive Grid), a dataset '
        '(2-4 attrs of size 2-4, 0..3000 skewed records), a neighbour (add / remove one record; replace one for bounded '
        'MWEM), eps in [0.05,10], delta in {1e-14..1e-3} (0 for pure-DP MWEM, and for Gaussian MWEM where only a refusal is correct), mechanism parameters (AIM rounds and '
        'weighted workload, MWEM rounds/alpha/workload, AdaGrid threshold/targets/split) and a numpy seed (= the random '
        'outcome sequence). The mechanism runs on D with every numpy.random normal/laplace/choice call recorded, then on '
        "D' under coupled replay. Ledger: Gaussian release rho=|dx|_2^2/(2 sigma^2); Laplace eps=|dx|_1/b; selection with "
        "p != p': range eta -> eta^2/8 (zCDP) or max|log ratio| (pure DP); any other data-dependent random call is a "
        "violation. Sum must be <= the harness's own cdp_rho(eps,delta) (or eps). Non-trivial = >=1 selection and >=2 "
        'noisy releases with non-zero charge; distinct by sha1.')
BUDGET = {'quick': 640, 'thorough': 12800}
TIME = {'quick': 110, 'thorough': 1700}
ASSUMPTIONS = ['hdmm.matrix.Identity replaced by scipy.sparse.eye (package not installed)',
               'inference iterations inside the mechanisms capped at %d (privacy does not depend on post-processing quality)' % mech.ITER_CAP]


def strategy(tier):
    return mech.cases()


def ledger(case, r):
    """-> (rho_total, eps_total, n_releases_charged, n_selections, problems, tight)"""
    ev, ev2 = r['events'], r['events2']
    rho = eps_pure = 0.0
    nrel = nsel = 0
    tight = False
    problems = []
    for a, b in zip(ev, ev2):
        if a['kind'] != b['kind']:
            break
        if a['kind'] in ('normal', 'laplace'):
            if 'operand' not in a or 'operand' not in b:
                continue
            if a['operand'].shape != b['operand'].shape:
                problems.append('release %d (%s) has %d values on D and %d on D\'' % (a['index'], a['site'], a['operand'].size, b['operand'].size))
                continue
            if a.get('noise_values', a['operand'].size) < a['operand'].size:
                problems.append('release %d (%s) adds %d noise value(s) to %d statistics: contrasts between cells are released exactly' % (a['index'], a['site'], a['noise_values'], a['operand'].size))
                continue
            dx = a['operand'] - b['operand']
            if a['kind'] == 'normal':
                c = float(dx @ dx) / (2 * a['scale'] ** 2)
                rho += c
            else:
                c = float(np.abs(dx).sum()) / a['scale']
                eps_pure += c
            if c > 0: nrel += 1
        else:
            pa, pb = a['p'], b['p']
            if pa is None or pb is None:
                continue
            if pa.shape != pb.shape:
                problems.append('choice %d (%s) over %d candidates on D and %d on D\'' % (a['index'], a['site'], pa.size, pb.size))
                continue
            if np.array_equal(pa, pb):
                if a['size'] is None: nsel += 1
                continue
            if a['size'] is not None:
                problems.append('data-dependent sampling outside the DP primitives at %s: probability vectors differ between D and D\'' % a['site'])
                continue
            nsel += 1
            with np.errstate(divide='ignore', invalid='ignore'):
                lr = np.log(pa) - np.log(pb)
            lr = lr[~((pa == 0) & (pb == 0))]
            if not np.all(np.isfinite(lr)):
                problems.append('selection %d (%s): a candidate has probability 0 on one dataset only' % (a['index'], a['site']))
                continue
            eta = float(lr.max() - lr.min())
            rho += eta * eta / 8.0
            eps_pure += float(np.abs(lr).max())
            if eta > 1e-9: tight = True
    return rho, eps_pure, nrel, nsel, problems, tight


def run_case(case):
    import_mbi()
    out = Out()
    out.classes = ['mech:' + case['mech'] + (':' + case['noise'] + (':bounded' if case['bounded'] else '') if case['mech'] == 'mwem' else ''),
                   'neighbour:' + case['neighbour']]
    if case['mech'] == 'mwem' and case['noise'] == 'gaussian' and case['delta'] == 0:
        # (eps, 0) with Gaussian noise: the only correct outcomes are a refusal before anything is released, or no
        # data-dependent Gaussian release at all
        try:
            r = mech.coupled(case)
        except AssertionError:
            out.classes.append('delta0_gaussian_refused'); return out
        rho, eps_pure, nrel, nsel, problems, tight = ledger(case, r)
        if rho > 0:
            return out.fail('overspend', 'mwem: Gaussian releases / zCDP selections (rho=%.6g over %d releases, %d selections) under a pure-DP budget (eps=%.4g, delta=0): no finite epsilon covers Gaussian noise at delta=0' % (rho, nrel, nsel, case['eps']))
        out.classes.append('delta0_gaussian_ran'); return out
    r = mech.coupled(case)
    pure = case['mech'] == 'mwem' and case['noise'] == 'laplace'
    rho, eps_pure, nrel, nsel, problems, tight = ledger(case, r)
    if r['diverged'] is not None or len(r['events']) != len(r['events2']):
        out.inconclusive = True; out.classes.append('replay_diverged(see C06)')
    if problems:
        return out.fail('unaccounted_release', problems[0])
    if pure:
        budget = case['eps']
        spent = eps_pure
        unit = 'eps'
    else:
        budget = mech.ref_cdp_rho(case['eps'], case['delta'])
        spent = rho
        unit = 'rho'
    out.extra['spent_fraction'] = spent / budget
    if spent > budget * (1 + 1e-9):
        return out.fail('overspend', '%s: privacy cost %s=%.6g accumulated over %d releases and %d selections exceeds the budget %.6g implied by (eps=%.4g, delta=%g): ratio %.4f' % (
            case['mech'], unit, spent, nrel, nsel, budget, case['eps'], case['delta'], spent / budget))
    out.nontrivial = nsel >= 1 and nrel >= 2
    frac = spent / budget
    out.classes.append('spent:%s' % ('>90%' if frac > 0.9 else '50-90%' if frac > 0.5 else '<50%'))
    if tight: out.classes.append('selection_tight')
    if case['mech'] == 'aim':
        out.classes.append('aim_rounds:%s' % ('default' if case['rounds'] is None else 'given'))
    if case['mech'] == 'adagrid' and case['targets']: out.classes.append('adagrid_targets')
    if case['n'] < 30: out.classes.append('tiny_dataset')
    if case.get('prior_objects'): out.classes.append('prior_mechanism_objects')
    if case.get('weights'): out.classes.append('weighted_records')
    return out


def _aim_few_rounds(case, outc):
    if case.get('mech') != 'aim' or case.get('rounds') is None:
        return False
    k = len(set(a for cl, w in case['workload'] for a in cl))
    return case['rounds'] < 0.9 * k


KNOWN = {'aim_few_rounds': _aim_few_rounds}
