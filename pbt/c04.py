"""C04 - the optimised objective, its gradient and smoothness bound are the stated ones."""
import numpy as np
from hypothesis import strategies as st
from . import gen, oracles, inf
from .common import Out, import_mbi

ID = 'C04'
RULE = ('Hypothesis draws a domain (2-5 attrs, sizes 1-4), 1-6 measurements (projections as ordered subsets incl. exact '
        'duplicates, nested and re-ordered ones; queries none/identity/sparse/dense/prefix/operator/total; noise scales '
        'log-uniform in [0.1,10]), a random non-negative joint whose clique marginals are the candidate point, a random '
        'direction, and a metric (L2/L1). Checks: loss equals the sum over supplied measurements of the scaled residual '
        'norm computed by the oracle; <grad,d> equals the central difference of the loss; all spellings of the same '
        'measurements give the same loss and the same iters=1 model; _lipschitz >= lambda_max of the Hessian assembled '
        'from the gradient map. Non-trivial = some sigma != 1 or non-identity Q or multi-attribute projection in '
        'non-canonical order; distinct by sha1.')
BUDGET = {'quick': 8000, 'thorough': 160000}
TIME = {'quick': 110, 'thorough': 1500}


@st.composite
def cases(draw, tier='quick'):
    dom = draw(gen.domains(2, 5 if tier == 'quick' else 6, 1, 4 if tier == 'quick' else 5, cap=400))
    attrs, shape = dom['attrs'], dom['shape']
    if len(attrs) >= 3 and draw(st.integers(0, 2)) == 0:
        meas = draw(inf.hub_measurement_specs(attrs, shape))
    else:
        meas = draw(inf.measurement_specs(attrs, shape, 1, 6, max_proj=3, max_cells=48))
    return {'domain': dom, 'meas': meas, 'data_seed': draw(st.integers(0, 2**31 - 1)),
            'point_seed': draw(st.integers(0, 2**31 - 1)), 'dir_seed': draw(st.integers(0, 2**31 - 1)),
            'total': draw(st.sampled_from([1.0, 10, 1000.0, 37.5])),
            'metric': draw(st.sampled_from(['L2', 'L2', 'L2', 'L1'])),
            'order': draw(st.sampled_from(['none', 'perm']))}


def strategy(tier):
    return cases(tier)


def clique_marginals(mbi, domain, cliques, attrs, X):
    return mbi.CliqueVector({cl: mbi.Factor(domain.project(cl), oracles.marg(X, attrs, cl).copy()) for cl in cliques})


def run_case(case):
    mbi = import_mbi()
    out = Out()
    attrs, shape = list(case['domain']['attrs']), list(case['domain']['shape'])
    domain = mbi.Domain(attrs, shape)
    total = case['total']
    X = inf.true_table(case['data_seed'], shape, total)
    meas = inf.expand(case['meas'], attrs, shape, X)
    metric = case['metric']
    eng = mbi.FactoredInference(domain, metric=metric, iters=1)
    if case['dir_seed'] % 3 == 0:
        # the engine has been set up before, for (a prefix of) the same queries with other answers
        prior = eng.fix_measurements([(q, y[::-1].copy() + 1.0, nz, pr) for q, y, nz, pr in [m.tuple for m in meas][:max(1, len(meas) - 1)]])
        eng._setup(prior, total)
        out.classes.append('engine_set_up_before')
    ms = eng.fix_measurements([m.tuple for m in meas])
    eng._setup(ms, total)
    model = eng.model
    # (a) loss at a consistent point = stated objective
    Y = inf.true_table(case['point_seed'], shape, total, conc=1.0)
    mu = clique_marginals(mbi, domain, model.cliques, attrs, Y)
    loss, grad = eng._marginal_loss(mu)
    ref = inf.loss_from_answers(meas, lambda proj: oracles.marg(Y, attrs, proj), metric)
    # numerical floor: a loss is only resolved relative to the size of its terms (loss of the all-zero table)
    floor = inf.loss_floor(meas, total)
    if not np.isfinite(loss) or abs(loss - ref) > 1e-9 * abs(ref) + floor:
        out.fail('mismatch:loss', 'loss %r, stated objective %r (%d measurements, cliques %s)' % (loss, ref, len(meas), model.cliques))
    # (b) gradient is the derivative of the loss
    if out.ok:
        rng = np.random.Generator(np.random.PCG64(case['dir_seed']))
        d = mbi.CliqueVector({cl: mbi.Factor(domain.project(cl), rng.standard_normal(size=domain.project(cl).shape)) for cl in model.cliques})
        t = 1e-3 * float(total) if metric == 'L2' else 1e-7 * float(total)
        lp, _ = eng._marginal_loss(mu + t * d)
        lm, _ = eng._marginal_loss(mu - t * d)
        fd = (lp - lm) / (2 * t)
        an = grad.dot(d)
        skip = False
        if metric == 'L1':
            # skip directions for which some residual changes sign within +-t
            # (from the harness's own copy of the measurements, for every clique that could host the projection: the
            # engine's internal grouping is not an interface)
            for m in meas:
                Q, y, proj = m.Qd, m.y, tuple(m.proj)
                for cl in model.cliques:
                    if not set(proj) <= set(cl): continue
                    r0 = (Q @ mu[cl].project(proj).datavector() - y)
                    r1 = (Q @ (mu + t * d)[cl].project(proj).datavector() - y)
                    r2 = (Q @ (mu - t * d)[cl].project(proj).datavector() - y)
                    if np.any(np.sign(r0) != np.sign(r1)) or np.any(np.sign(r0) != np.sign(r2)) or np.any(r0 == 0):
                        skip = True
        if skip:
            out.classes.append('L1_kink_skipped')
        else:
            scale = abs(an) + abs(fd) + 1e-12
            gn = np.sqrt(grad.dot(grad)) * np.sqrt(d.dot(d))
            if abs(fd - an) > 1e-6 * scale + 1e-9 * gn + (1e-9 * (abs(lp) + abs(lm)) / (2 * t)):
                out.fail('mismatch:gradient', '<grad,d> = %r but central difference of the loss = %r' % (an, fd))
    # (c) spellings
    if out.ok:
        alt = []
        for s, m in zip(case['meas'], meas):
            n = m.Qd.shape[1]
            from scipy import sparse
            from scipy.sparse.linalg import aslinearoperator
            k = (s['yseed'] + len(alt)) % 4
            if np.array_equal(m.Qd, np.eye(n)) and k == 0:
                Q = None
            elif k == 1:
                Q = sparse.csr_matrix(m.Qd)
            elif k == 2:
                Q = aslinearoperator(m.Qd.copy())
            else:
                Q = m.Qd.copy()
            p = m.proj
            pp = p[0] if (len(p) == 1 and k % 2 == 0) else (list(p) if k % 2 else tuple(p))
            alt.append((Q, m.y.copy(), m.noise, pp))
        eng2 = mbi.FactoredInference(domain, metric=metric, iters=1)
        eng2._setup(eng2.fix_measurements(alt), total)
        if eng2.model.cliques != model.cliques:
            out.fail('mismatch:spelling', 'model cliques differ between spellings: %s vs %s' % (eng2.model.cliques, model.cliques))
        else:
            loss2, grad2 = eng2._marginal_loss(mu)
            if abs(loss2 - loss) > 1e-10 * abs(loss) + floor:
                out.fail('mismatch:spelling', 'loss %r with canonical spelling, %r with alternative spelling' % (loss, loss2))
        if out.ok:
            # public path
            kw = {} if metric == 'L2' else {'options': {'stepsize': 0.01 / float(total) ** 2}}
            m1 = mbi.FactoredInference(domain, metric=metric, iters=1).estimate([m.tuple for m in meas], total, **kw)
            m2 = mbi.FactoredInference(domain, metric=metric, iters=1).estimate(alt, total, **kw)
            for m in meas:
                a1 = m1.project(tuple(m.proj)).values; a2 = m2.project(tuple(m.proj)).values
                ok, why = oracles.close(a2, a1, 1e-7, 1e-9 * float(total))
                if not ok:
                    out.fail('mismatch:spelling:estimate', 'iters=1 models differ between spellings on %s: %s' % (m.proj, why)); break
    # (c') the loss the optimiser reports is the loss of the model it returns (third observation point)
    if out.ok and metric == 'L2':
        for it in (1, 3):
            e3 = mbi.FactoredInference(domain, metric='L2', iters=it)
            with_tiny = [(q, y, nz * (1e-5 if case['point_seed'] % 4 == 0 else 1.0), pr) for q, y, nz, pr in [m.tuple for m in meas]]
            rep = e3.mirror_descent(e3.fix_measurements(with_tiny), total)
            rec = 0.0
            for (q, y, nz, pr), m in zip(with_tiny, meas):
                x = np.asarray(e3.model.project(tuple(m.proj)).values, dtype=float).flatten()
                r = (m.Qd @ x - y) / nz
                rec += 0.5 * float(r @ r)
            # float64 resolves log-probabilities only to ~2e-16 x |theta|: with noise ~1e-5 one step already moves the
            # potentials to ~1e9 and the tables of two cliques agree on a shared attribute only to ~1e-6 (same
            # magnitude-aware tolerance as C08)
            mag = max(float(np.max(np.abs(np.where(np.isfinite(e3.model.potentials[c].values), e3.model.potentials[c].values, 0.0)))) for c in e3.model.cliques)
            if rep is not None and abs(rep - rec) > (1e-6 + 1e-14 * mag) * abs(rec) + floor / min(1.0, min(nz for _, _, nz, _ in with_tiny)) ** 2:
                out.fail('mismatch:reported_loss', 'mirror_descent(iters=%d) reports loss %r, the returned model has loss %r' % (it, rep, rec)); break
        if case['point_seed'] % 4 == 0: out.classes.append('tiny_noise_md')
    # (d) smoothness constant
    if out.ok and metric == 'L2':
        small = [n for n in (m.Qd.shape[1] for m in meas)]
        if min(small) >= 2:      # eigsh(k=1) needs a query over >= 2 cells (ARPACK precondition)
            L = eng._lipschitz(ms)
            keys = list(model.cliques)
            offs = np.cumsum([0] + [int(np.prod(domain.project(cl).shape)) for cl in keys])
            N = int(offs[-1])
            if N <= 400:
                zero = mbi.CliqueVector({cl: mbi.Factor.zeros(domain.project(cl)) for cl in keys})
                _, g0 = eng._marginal_loss(zero)
                flat = lambda g: np.concatenate([g[cl].values.flatten() for cl in keys])
                g0 = flat(g0)
                H = np.zeros((N, N))
                for i in range(N):
                    e = mbi.CliqueVector({cl: mbi.Factor.zeros(domain.project(cl)) for cl in keys})
                    k = int(np.searchsorted(offs, i, side='right') - 1)
                    e[keys[k]].values.reshape(-1)[i - offs[k]] = 1.0
                    _, gi = eng._marginal_loss(e)
                    H[:, i] = flat(gi) - g0
                if np.max(np.abs(H - H.T)) > 1e-8 * (np.max(np.abs(H)) + 1e-300):
                    out.fail('mismatch:hessian', 'gradient map is not symmetric')
                else:
                    lam = float(np.linalg.eigvalsh((H + H.T) / 2)[-1])
                    out.classes.append('lipschitz_checked')
                    if not (L >= lam * (1 - 1e-6) - 1e-12):
                        out.fail('mismatch:lipschitz', '_lipschitz = %r < lambda_max(Hessian) = %r (cliques %s)' % (L, lam, keys))
                    if sum(1 for m in meas if sum(1 for cl in keys if set(m.proj) <= set(cl)) >= 2) >= 1:
                        out.classes.append('proj_in_2_cliques')
    out.nontrivial = any(m.noise != 1.0 for m in meas) or any(not np.array_equal(m.Qd, np.eye(m.Qd.shape[1])) for m in meas) \
        or any(len(m.proj) >= 2 and m.proj != [a for a in attrs if a in m.proj] for m in meas)
    out.classes += ['metric:' + metric]
    if len(set(tuple(m.proj) for m in meas)) < len(meas): out.classes.append('duplicate_proj')
    return out
