"""Shared engine for C05 / C06: runs a shipped mechanism on a dataset D recording every numpy.random
normal / laplace / choice call, then runs it again on a neighbour D' under coupled replay (identical
released values, identical selections) and returns both event sequences and both outputs."""
import math
import numpy as np
from hypothesis import strategies as st
from . import gen, oracles, mechload, rngtap
from .common import import_mbi, HarnessError

ITER_CAP = 25
MECHS = ['mst', 'aim', 'mwem', 'adagrid']

logf = lambda lo, hi: st.floats(math.log(lo), math.log(hi)).map(lambda x: float(math.exp(x)))


@st.composite
def cases(draw, mechs=MECHS):
    mech = draw(st.sampled_from(mechs))
    k = draw(st.integers(2, 4)) if mech != 'adagrid' else draw(st.integers(2, 4))
    names = list(draw(st.permutations(gen.NAMES[:5])))[:k]
    sizes = [draw(st.integers(2, 4)) for _ in range(k)]
    n = draw(st.one_of(st.integers(0, 30), st.integers(30, 300), st.integers(30, 300), st.integers(300, 3000), st.integers(300, 3000)))
    case = {'mech': mech, 'domain': {'attrs': names, 'shape': sizes}, 'n': n, 'data_seed': draw(st.integers(0, 2**31 - 1)),
            'skew': draw(st.sampled_from([0.0, 1.0, 2.5])),
            'eps': draw(logf(0.05, 10.0)) if draw(st.integers(0, 7)) else draw(logf(3e-4, 0.05)),
            'delta': draw(st.sampled_from([1e-9, 1e-6, 1e-3, 1e-12, 1e-10, 1e-14])),
            'np_seed': draw(st.integers(0, 2**31 - 1)), 'nb_seed': draw(st.integers(0, 2**31 - 1)),
            'neighbour': draw(st.sampled_from(['add', 'remove'])),
            # record weights in (0, 1] (sensitivities still hold); the record that differs carries the largest weight
            'weights': draw(st.sampled_from([None, None, None, 'frac']))}
    if mech == 'aim':
        case['rounds'] = draw(st.one_of(st.none(), st.integers(1, 12)))
        wl = []
        for _ in range(draw(st.integers(1, 4))):
            cl = draw(gen.ordered_subset(names, 1, min(3, k)))
            wl.append([sorted(cl, key=names.index), draw(st.sampled_from([1.0, 1.0, 0.5, 2.0]))])
        case['workload'] = wl
        case['prng'] = draw(st.sampled_from(['none', 'np.random']))
        # model-size cap as a multiple of the size of the model over the one-way marginals (None = default 80 MB):
        # a binding cap makes the candidate set grow from round to round
        case['size_cap'] = draw(st.sampled_from([None, None, 1.2, 2.0, 4.0]))
        # mechanism objects configured earlier in the same process with other privacy parameters (looser delta, larger
        # epsilon): the budget of this run must not depend on them
        case['prior_objects'] = draw(st.booleans())
    elif mech == 'mwem':
        case['rounds'] = draw(st.integers(1, 5))
        case['noise'] = draw(st.sampled_from(['gaussian', 'laplace']))
        case['bounded'] = draw(st.booleans())
        case['alpha'] = draw(st.floats(0.1, 0.95))
        if case['noise'] == 'laplace' and draw(st.booleans()):
            case['delta'] = 0.0
        elif case['noise'] == 'gaussian' and draw(st.integers(0, 5)) == 0:
            case['delta'] = 0.0       # the function's own default; Gaussian noise cannot meet a pure-DP budget
        wl = []
        for _ in range(draw(st.integers(1, 4))):
            cl = draw(gen.ordered_subset(names, 1, min(2, k)))
            cl = sorted(cl, key=names.index)
            if cl not in wl: wl.append(cl)
        case['workload'] = draw(st.sampled_from([None, wl]))
        if case['bounded']:
            case['neighbour'] = 'replace'
    elif mech == 'adagrid':
        case['threshold'] = draw(st.floats(0.5, 8.0))
        case['threshold_mode'] = draw(st.sampled_from(['free', 'at_cell']))
        nt = draw(st.integers(0, max(0, k - 2)))
        case['targets'] = list(draw(st.permutations(names)))[:nt]
        case['split'] = draw(st.sampled_from([None, None, [0.1, 0.1, 0.8], [1, 2, 3]]))
    return case


def make_data(case):
    attrs, shape = case['domain']['attrs'], case['domain']['shape']
    rng = np.random.Generator(np.random.PCG64(case['data_seed']))
    n = case['n']
    cols = []
    for s in shape:
        p = np.exp(-case['skew'] * rng.permutation(s).astype(float)); p /= p.sum()
        cols.append(rng.choice(s, size=n, p=p))
    recs = np.stack(cols, axis=1).astype(np.int64) if n else np.zeros((0, len(shape)), dtype=np.int64)
    rn = np.random.Generator(np.random.PCG64(case['nb_seed']))
    new = np.array([int(rn.integers(0, s)) for s in shape], dtype=np.int64)
    kind = case['neighbour']
    if kind == 'remove' and n == 0:
        kind = 'add'
    if kind == 'add':
        recs2 = np.vstack([recs, new[None, :]])
    elif kind == 'remove':
        i = int(rn.integers(0, n))
        recs2 = np.delete(recs, i, axis=0)
    else:
        if n == 0:
            recs = new[None, :].copy(); n = 1
        i = int(rn.integers(0, recs.shape[0]))
        recs2 = recs.copy(); recs2[i] = np.array([int(rn.integers(0, s)) for s in shape])
    return recs, recs2


def to_dataset(mbi, recs, attrs, shape, weights=None):
    import pandas as pd
    return mbi.Dataset(pd.DataFrame(recs, columns=attrs), mbi.Domain(attrs, shape), weights)


def make_weights(case, recs, recs2):
    """-> (w, w2) or (None, None).  Common records weigh 0.25 / 0.5, the differing record 1.0."""
    if case.get('weights') != 'frac' or case['neighbour'] == 'replace':
        return None, None
    rng = np.random.Generator(np.random.PCG64(case['nb_seed'] + 5))
    n, n2 = recs.shape[0], recs2.shape[0]
    if n2 == n + 1:                       # add: the new record is the last row of recs2
        w = rng.choice([0.25, 0.5], size=n)
        return w, np.concatenate([w, [1.0]])
    if n2 == n - 1:                       # remove: find the removed row
        i = next((k for k in range(n2) if not np.array_equal(recs[k], recs2[k])), n2)
        w2 = rng.choice([0.25, 0.5], size=n2)
        return np.concatenate([w2[:i], [1.0], w2[i:]]), w2
    return None, None


def ref_cdp_rho(eps, delta):
    """Own inverse of the reference cdp_delta: largest rho with ref_cdp_delta(rho, eps) <= delta."""
    lo, hi = 0.0, eps + 1.0
    for _ in range(80):
        mid = (lo + hi) / 2
        if oracles.ref_cdp_delta(mid, eps)[0] <= delta:
            lo = mid
        else:
            hi = mid
    return hi


def invoke(case, data, extra=None):
    """Call the mechanism named in the case on `data`; returns the synthetic Dataset."""
    m = case['mech']
    if m == 'mst':
        return mechload.load('mst', ITER_CAP).MST(data, case['eps'], case['delta'])
    if m == 'aim':
        mod = mechload.load('aim', ITER_CAP)
        kw = {}
        if case.get('prng') == 'np.random':
            kw['prng'] = np.random
        if case.get('size_cap') is not None:
            shape = case['domain']['shape']
            kw['max_model_size'] = case['size_cap'] * sum(shape) * 8 / 2.0 ** 20
        if case.get('prior_objects'):
            mod.AIM(case['eps'], min(case['delta'] * 100, 0.1)); mod.AIM(case['eps'] * 2, case['delta'])
        mech = mod.AIM(case['eps'], case['delta'], rounds=case['rounds'], **kw)
        return mech.run(data, [(tuple(cl), w) for cl, w in case['workload']])
    if m == 'mwem':
        mod = mechload.load('mwem+pgm', ITER_CAP)
        wl = None if case['workload'] is None else [tuple(c) for c in case['workload']]
        return mod.mwem_pgm(data, case['eps'], case['delta'], workload=wl, rounds=case['rounds'], pgm_iters=ITER_CAP,
                            noise=case['noise'], bounded=case['bounded'], alpha=case['alpha'])
    if m == 'adagrid':
        mod = mechload.load('adaptive_grid', ITER_CAP)
        thr = case['threshold'] if extra is None else extra
        return mod.adagrid(data, case['eps'], case['delta'], thr, targets=list(case['targets']), split_strategy=case['split'], iters=ITER_CAP)
    raise ValueError(m)


def adagrid_threshold(case, recs):
    """threshold_mode 'at_cell': aim the plausibility threshold just below an actual one-way count, so that the
    neighbouring dataset can cross it (the region a data-dependent threshold test would need)."""
    if case['mech'] != 'adagrid' or case.get('threshold_mode') != 'at_cell' or recs.shape[0] == 0:
        return None
    attrs, shape = case['domain']['attrs'], case['domain']['shape']
    rho = ref_cdp_rho(case['eps'], case['delta'])
    frac1 = 1.0 / 3 if not case['split'] else case['split'][0] / float(sum(case['split']))
    nontarget = [a for a in attrs if a not in case['targets']]
    nt = len(case['targets'])
    n_all = len(nontarget) * (2 ** nt) + (2 ** nt - 1) - (len(nontarget) - 1) * (2 ** nt - 1) if nt else len(nontarget)
    # number of cliques in the downward closure of {(a,)+targets}: subsets of targets (non-empty) + a x subsets
    n_all = (2 ** nt - 1) + len(nontarget) * (2 ** nt)
    sigma = math.sqrt(0.5 / (rho * frac1)) * math.sqrt(n_all)
    rn = np.random.Generator(np.random.PCG64(case['nb_seed'] + 17))
    j = int(rn.integers(0, len(attrs)))
    counts = np.bincount(recs[:, j], minlength=shape[j])
    c = int(counts[int(rn.integers(0, shape[j]))])
    if c < 1:
        return None
    return (c - 0.5) / sigma


def coupled(case):
    """-> dict(events, events2, synth, synth2, recs, recs2, diverged, error)"""
    mbi = import_mbi()
    attrs, shape = case['domain']['attrs'], case['domain']['shape']
    recs, recs2 = make_data(case)
    thr = adagrid_threshold(case, recs)
    w, w2 = make_weights(case, recs, recs2)
    D = to_dataset(mbi, recs, attrs, shape, w)
    D2 = to_dataset(mbi, recs2, attrs, shape, w2)
    np.random.seed(case['np_seed'])
    with rngtap.Tap('record') as t1:
        s1 = invoke(case, D, thr)
    np.random.seed(case['np_seed'])
    with rngtap.Tap('replay', recorded=t1.events) as t2:
        s2 = invoke(case, D2, thr)
    return {'events': t1.events, 'events2': t2.events, 'synth': s1, 'synth2': s2, 'recs': recs, 'recs2': recs2,
            'diverged': t2.diverged, 'threshold': thr}
