"""Hypothesis strategies producing JSON-serialisable descriptions, and deterministic expanders."""
import itertools, math
import numpy as np
from hypothesis import strategies as st

NAMES = ['a', 'b', 'c', 'd', 'e', 'f', 'g', 'h', 'i', 'j']


@st.composite
def domains(draw, min_attrs=1, max_attrs=5, min_size=1, max_size=4, cap=4096):
    n = draw(st.integers(min_attrs, max_attrs))
    names = draw(st.permutations(NAMES[:max(n + 2, 4)]))[:n]
    sizes = []
    prod = 1
    for _ in range(n):
        hi = max(min_size, min(max_size, cap // prod))
        s = draw(st.integers(min_size, hi))
        sizes.append(s); prod *= s
    return {'attrs': list(names), 'shape': sizes}


@st.composite
def ordered_subset(draw, attrs, min_size=1, max_size=None):
    max_size = len(attrs) if max_size is None else min(max_size, len(attrs))
    k = draw(st.integers(min_size, max_size))
    perm = draw(st.permutations(list(attrs)))
    return list(perm[:k])


@st.composite
def clique_sets(draw, attrs, max_cliques=6, max_clique_size=4, min_cliques=0):
    """A list of cliques (each an ordered list of attribute names) from a mixture of shapes."""
    n = len(attrs)
    shape = draw(st.sampled_from(['free', 'free', 'chain', 'star', 'cycle', 'complete', 'twocomp', 'nested', 'dup', 'tree']))
    perm = list(draw(st.permutations(list(attrs))))
    cl = []
    if shape == 'free' or n < 2:
        k = draw(st.integers(min_cliques, max_cliques))
        cl = [draw(ordered_subset(attrs, 1, max_clique_size)) for _ in range(k)]
    elif shape == 'chain':
        cl = [[perm[i], perm[i + 1]] for i in range(n - 1)]
    elif shape == 'star':
        cl = [[perm[0], perm[i]] for i in range(1, n)]
    elif shape == 'tree':
        # random recursive tree: branching nodes with arms of unequal depth
        cl = [[perm[draw(st.integers(0, i - 1))], perm[i]] for i in range(1, n)]
    elif shape == 'cycle':
        cl = [[perm[i], perm[(i + 1) % n]] for i in range(n)] if n >= 3 else [[perm[0], perm[1]]]
    elif shape == 'complete':
        cl = [list(p) for p in itertools.combinations(perm[:min(n, 4)], 2)]
    elif shape == 'twocomp':
        h = n // 2
        cl = [[perm[i], perm[i + 1]] for i in range(h - 1)] + [[perm[i], perm[i + 1]] for i in range(h, n - 1)]
        if not cl:
            cl = [[perm[0]]]
    elif shape == 'nested':
        big = perm[:min(n, max(2, min(3, max_clique_size)))]
        cl = [big, big[:-1]]
        if n > len(big):
            cl.append([big[0], perm[len(big)]])
    elif shape == 'dup':
        big = perm[:min(n, 3)]
        cl = [big, list(reversed(big))]
        if n > len(big):
            cl.append([perm[-1], big[-1]])
    # random internal order / extra cliques
    out = []
    for c in cl[:max_cliques]:
        c = list(c)[:max_clique_size]
        if draw(st.booleans()):
            c = list(reversed(c))
        out.append(c)
    if shape != 'free' and len(out) < max_cliques and draw(st.booleans()):
        out.append(draw(ordered_subset(attrs, 1, min(2, max_clique_size))))
    while len(out) < min_cliques:
        out.append(draw(ordered_subset(attrs, 1, max_clique_size)))
    return out


value_spec = st.fixed_dictionaries({
    'seed': st.integers(0, 2**31 - 1),
    'scale': st.sampled_from([0.0, 1.0, 1.0, 1.0, 5.0, 30.0, 1e3, 1e5]),
})


def expand_values(spec, shape):
    """Deterministic table from a value spec: N(0,1)*scale."""
    rng = np.random.Generator(np.random.PCG64(int(spec['seed'])))
    v = rng.standard_normal(size=tuple(shape)) * float(spec['scale'])
    return v


def neg_inf_mask(seed, shape, frac, keep_index):
    """Boolean mask of entries to set to -inf; never the entry at keep_index (witness cell)."""
    rng = np.random.Generator(np.random.PCG64(int(seed) + 7919))
    m = rng.random(size=tuple(shape)) < frac
    if m.ndim == 0:
        return np.zeros(shape, dtype=bool)
    m[tuple(keep_index)] = False
    return m


totals = st.one_of(st.sampled_from([1, 1.0, 10, 1000.0, 0.5]),
                   st.floats(-3, 7).map(lambda e: float(10 ** e)))


def nonlex(attrs):
    return list(attrs) != sorted(attrs)
