"""C02 - every query path answers from one and the same joint distribution (stateful)."""
import os, shutil, itertools
import numpy as np
from hypothesis import strategies as st
from hypothesis.stateful import RuleBasedStateMachine, rule, initialize, precondition
from . import gen, oracles, c01
from .common import Out, import_mbi, VERIF

ID = 'C02'
STATEFUL = True
RULE = ('Hypothesis RuleBasedStateMachine: the initial rule draws a model (2-5 attributes, sizes 1-3, C01-style clique '
        'shapes, potentials N(0,1)*scale with scale in {0,1,5,30,600} and optional -inf (krondot only when the summed magnitude is <=300), total incl. != 1, elimination-order mode); then up to 14 '
        'steps of project(ordered subset, list|tuple, incl. () and full permutations) / calculate_many_marginals / krondot '
        '/ datavector / cache / uncache / save+load / relayout (parameter tables re-stored with permuted axes) / belief propagation on other parameters / synthetic_data / scribbling on a returned answer. After every step '
        'the answer must equal the brute-force marginal in the requested axis order. The executed rule list is the '
        'replayable case. Non-trivial = the history has an out-of-clique query spanning >=2 maximal cliques and a '
        'cache-state change; distinct by sha1 of the history.')
BUDGET = {'quick': 6400, 'thorough': 120000}   # histories
TIME = {'quick': 110, 'thorough': 1500}
STEPS = 14


@st.composite
def init_cases(draw, tier='quick'):
    dom = draw(gen.domains(2, 5 if tier == 'quick' else 6, 1, 3 if tier == 'quick' else 4, cap=300 if tier == 'quick' else 2000))
    attrs = dom['attrs']
    cliques = draw(gen.clique_sets(attrs, max_cliques=5, max_clique_size=3, min_cliques=1))
    witness = [draw(st.integers(0, s - 1)) for s in dom['shape']]
    ninf_at = draw(st.integers(-1, len(cliques) - 1))
    factors = [{'attrs': cl, 'vals': {'seed': draw(st.integers(0, 2**31 - 1)), 'scale': draw(st.sampled_from([0.0, 1.0, 1.0, 5.0, 30.0, 600.0]))},
                'ninf': (0.4 if i == ninf_at else 0)} for i, cl in enumerate(cliques)]
    return {'domain': dom, 'cliques': cliques, 'factors': factors, 'witness': witness,
            'total': draw(st.sampled_from([1, 1.0, 10, 1000.0, 0.5, 37.5])),
            'order': draw(c01.order_mode(attrs)), 'np_seed': draw(st.integers(0, 2**31 - 1))}


class State(object):
    def __init__(self, init):
        mbi = import_mbi()
        self.mbi = mbi
        self.init = init
        self.attrs, self.shape = list(init['domain']['attrs']), list(init['domain']['shape'])
        self.total = init['total']
        domain = mbi.Domain(self.attrs, self.shape)
        factors = c01.build_factors(init)
        self.P, _ = oracles.joint(self.attrs, self.shape, factors, float(self.total))
        np.random.seed(init['np_seed'])
        cliques = [tuple(c) for c in init['cliques']]
        self.model = mbi.GraphicalModel(domain, cliques, self.total, elimination_order=c01.elim_arg(init['order']))
        self.model.potentials = c01.fold_potentials(mbi, domain, self.model, factors)
        self.domain = domain
        self.memo = {}
        self.maxpot = sum(float(np.max(np.abs(np.where(np.isfinite(v), v, 0.0)))) for _, v in factors)
        self.tmp = None
        self.flags = set()

    def close(self):
        if self.tmp and os.path.isdir(self.tmp):
            shutil.rmtree(self.tmp, ignore_errors=True)


def _cmp(out, tag, state, got_factor, want):
    ref = oracles.marg(state.P, state.attrs, want)
    tot = float(state.total)
    if tuple(got_factor.domain.attrs) != tuple(want):
        return out.fail('mismatch:%s:order' % tag, 'asked %s got axes %s' % (list(want), got_factor.domain.attrs))
    ok, why = oracles.close(got_factor.values, ref, 1e-6, 1e-9 * tot)
    if not ok:
        return out.fail('mismatch:' + tag, 'attrs %s: %s' % (list(want), why))
    s = float(np.sum(got_factor.values))
    if abs(s - tot) > 1e-6 * tot:
        return out.fail('mismatch:%s:sum' % tag, 'answer for %s sums to %r, total %r' % (list(want), s, tot))
    key = tuple(want)
    if key in state.memo:
        ok, why = oracles.close(got_factor.values, state.memo[key], 1e-6, 1e-9 * tot)
        if not ok:
            return out.fail('mismatch:%s:reask' % tag, 'answer for %s changed since it was first asked: %s' % (list(want), why))
    else:
        state.memo[key] = np.array(got_factor.values, dtype=float).copy()
    mc = state.model.cliques
    if not any(set(want) <= set(c) for c in mc) and sum(1 for c in mc if set(c) & set(want)) >= 2:
        state.flags.add('out_of_clique')
    return out


def apply_op(state, op, out):
    """Execute one recorded operation against the real model and compare with the oracle."""
    m = state.model
    k = op['op']
    if k == 'project':
        want = list(op['attrs'])
        arg = tuple(want) if op.get('as') == 'tuple' else list(want)
        _cmp(out, 'project', state, m.project(arg), want)
        if not want: state.flags.add('empty_tuple')
        if len(want) == len(state.attrs): state.flags.add('full_tuple')
    elif k == 'many':
        projs = [tuple(p) for p in op['projs']]
        had = hasattr(m, 'marginals')
        ans = m.calculate_many_marginals(projs)
        if not had: state.flags.add('cache_change')
        for p in projs:
            if p not in ans:
                return out.fail('mismatch:many:missing', 'no answer for %s' % (p,))
            _cmp(out, 'many', state, ans[p], list(p))
            if not out.ok: return
    elif k == 'krondot':
        if state.maxpot > 300:     # krondot works with exp(potentials) (documented non-log-space path): keep it in range
            state.flags.add('krondot_skipped_large_potentials'); return
        rng = np.random.Generator(np.random.PCG64(op['seed']))
        mats = [rng.standard_normal(size=(r, n)) for r, n in zip(op['rows'], state.shape)]
        got = m.krondot([q.copy() for q in mats])
        T = state.P
        for i, q in enumerate(mats):
            T = np.moveaxis(np.tensordot(q, T, axes=([1], [i])), 0, i)
        scale = float(np.max(np.abs(T))) + 1e-300
        if got.shape != T.shape or not np.all(np.isfinite(got)) or np.max(np.abs(got - T)) > 1e-6 * scale:
            out.fail('mismatch:krondot', 'krondot answer differs from tensor contraction (max ref %g)' % scale)
        if float(state.total) != 1.0: state.flags.add('krondot_total!=1')
    elif k == 'datavector':
        got = m.datavector(flatten=op['flatten'])
        ref = state.P.flatten() if op['flatten'] else state.P
        ok, why = oracles.close(got, ref, 1e-6, 1e-9 * float(state.total))
        if not ok:
            out.fail('mismatch:datavector', why)
    elif k == 'cache':
        if not hasattr(m, 'marginals'): state.flags.add('cache_change')
        m.marginals = m.belief_propagation(m.potentials)
    elif k == 'uncache':
        if hasattr(m, 'marginals'):
            del m.marginals
            state.flags.add('cache_change')
    elif k == 'save_load':
        if state.tmp is None:
            state.tmp = os.path.join(VERIF, '.work', 'c02-%d' % os.getpid())
            os.makedirs(state.tmp, exist_ok=True)
        path = os.path.join(state.tmp, 'model.pkl')
        state.mbi.GraphicalModel.save(m, path)
        state.model = state.mbi.GraphicalModel.load(path)
        state.flags.add('save_load')
    elif k == 'bp_other':
        # belief propagation is a function of its argument: running it on other parameters (as the estimators do with
        # candidate points) must leave every later answer of the model unchanged
        other = state.mbi.CliqueVector({cl: m.potentials[cl] * op['scale'] + op['shift'] for cl in m.potentials})
        m.belief_propagation(other)
        state.flags.add('bp_other')
    elif k == 'relayout':
        # store each parameter table with its axes in another order (Factors are addressed by attribute name, so this
        # changes nothing about the model); what a caller assembling potentials from own tables ends up with
        rng = np.random.Generator(np.random.PCG64(op['seed']))
        for cl in list(m.potentials.keys()):
            f = m.potentials[cl]
            names = list(f.domain.attrs)
            m.potentials[cl] = f.transpose([names[i] for i in rng.permutation(len(names))])
        if any(len(cl) >= 2 for cl in m.potentials.keys()): state.flags.add('relayout')
    elif k == 'synth':
        np.random.seed(op['seed'])
        rows = op['rows']
        if rows is None and int(float(state.total)) < 1:
            rows = 3
        m.synthetic_data(rows=rows, method=op['method'])
        state.flags.add('synth')
    elif k == 'scribble':
        want = list(op['attrs'])
        f = m.project(tuple(want))
        _cmp(out, 'project', state, f, want)
        if out.ok and isinstance(f.values, np.ndarray) and f.values.ndim > 0:
            f.values[...] = -777.0     # a caller editing the table it was handed must not affect the model
        state.flags.add('scribble')
    else:
        raise ValueError(k)


def finish(state, history, out):
    mc = state.model.cliques
    out.nontrivial = 'out_of_clique' in state.flags and 'cache_change' in state.flags
    cls = sorted(state.flags)
    if any(len(c) >= 3 for c in mc): cls.append('3attr_clique')
    if any(len(state.model.neighbors[c]) >= 3 for c in mc): cls.append('branching_tree')
    if float(state.total) != 1.0: cls.append('total!=1')
    if any(list(o.get('attrs', [])) != [a for a in state.attrs if a in o.get('attrs', [])] for o in history if o['op'] == 'project'):
        cls.append('noncanonical_order')
    out.classes = cls
    return out


def run_case(case):
    """Replay interpreter: a case is {'init': ..., 'ops': [...]}."""
    out = Out()
    state = State(case['init'])
    try:
        for op in case['ops']:
            apply_op(state, op, out)
            if not out.ok:
                break
        return finish(state, case['ops'], out)
    finally:
        state.close()


def machine(tier, record, timeup):
    idx = st.lists(st.integers(0, 5), min_size=0, max_size=6, unique=True)

    class M(RuleBasedStateMachine):
        def __init__(self):
            super().__init__()
            self.state = None; self.history = []; self.out = Out(); self.init = None; self.skip = False

        @initialize(init=init_cases(tier))
        def start(self, init):
            if timeup():
                self.skip = True; return
            self.init = init
            self.state = State(init)

        def _do(self, op):
            if self.skip or self.state is None or not self.out.ok:
                return
            self.history.append(op)
            try:
                apply_op(self.state, op, self.out)
            except Exception as e:
                from .common import _frame_origin, HarnessError
                import traceback
                origin, where = _frame_origin(e.__traceback__)
                if origin != 'repo':
                    raise HarnessError('harness exception %s: %s\n%s' % (where, e, traceback.format_exc()))
                self.out.fail('exception:%s' % type(e).__name__, '%s: %s' % (type(e).__name__, e), where)
                self.out.extra['traceback'] = traceback.format_exc()[-3000:]

        def _attrs(self, ix):
            a = self.state.attrs
            return [a[i] for i in ix if i < len(a)]

        @rule(ix=idx, as_=st.sampled_from(['list', 'tuple']))
        def project(self, ix, as_):
            if self.state: self._do({'op': 'project', 'attrs': self._attrs(ix), 'as': as_})

        @rule(ixs=st.lists(idx, min_size=1, max_size=4))
        def many(self, ixs):
            if self.state: self._do({'op': 'many', 'projs': [self._attrs(ix) for ix in ixs]})

        @rule(seed=st.integers(0, 2**31 - 1), rows=st.lists(st.integers(1, 3), min_size=6, max_size=6))
        def krondot(self, seed, rows):
            if self.state: self._do({'op': 'krondot', 'seed': seed, 'rows': rows[:len(self.state.attrs)]})

        @rule(flatten=st.booleans())
        def datavector(self, flatten):
            self._do({'op': 'datavector', 'flatten': flatten})

        @rule()
        def cache(self):
            self._do({'op': 'cache'})

        @rule()
        def uncache(self):
            self._do({'op': 'uncache'})

        @rule()
        def save_load(self):
            self._do({'op': 'save_load'})

        @rule(scale=st.sampled_from([0.0, 0.5, 2.0]), shift=st.sampled_from([0.0, -3.0, 40.0]))
        def bp_other(self, scale, shift):
            self._do({'op': 'bp_other', 'scale': scale, 'shift': shift})

        @rule(seed=st.integers(0, 2**31 - 1))
        def relayout(self, seed):
            self._do({'op': 'relayout', 'seed': seed})

        @rule(seed=st.integers(0, 2**31 - 1), rows=st.sampled_from([None, 1, 7, 50]), method=st.sampled_from(['round', 'sample']))
        def synth(self, seed, rows, method):
            self._do({'op': 'synth', 'seed': seed, 'rows': rows, 'method': method})

        @rule(ix=idx)
        def scribble(self, ix):
            if self.state: self._do({'op': 'scribble', 'attrs': self._attrs(ix)})

        def teardown(self):
            if self.state is not None:
                try:
                    finish(self.state, self.history, self.out)
                    record({'init': self.init, 'ops': self.history}, self.out)
                finally:
                    self.state.close()

    return M, STEPS
