"""C11 - synthetic records faithfully realise the model."""
import math
import numpy as np
from hypothesis import strategies as st
from . import gen, oracles, c01
from .common import Out, import_mbi

ID = 'C11'
RULE = ('Hypothesis draws a C01-style model (1-5 attrs, sizes 1-4, clique shapes incl. cycles / nested / disconnected, '
        'potentials with -inf cells, total 0.3..1e6, elimination-order mode), optionally caches its clique marginals, and '
        'generates synthetic data twice on the same model object (rows in {None,1,2,7,100,1e4} and a second row count two '
        'decades away, then replaces the potentials and generates a third time; thorough adds 1e5,1e6) with method round or sample and a drawn numpy seed. Oracle: brute-force '
        'joint. Checks: row count, column order, value ranges, no record in a zero-probability cell (every clique and the '
        'full joint); round mode: per-clique count error within the rows-independent bound B(C) derived by induction '
        'along the generation order; sample mode: Hoeffding bound with a 1e-12 union bound. Non-trivial = >=2 columns '
        'generated from a non-empty parent set with non-uniform conditionals (round: and B(C) sharper than sampling '
        'noise for some cell); distinct by sha1.')
BUDGET = {'quick': 8000, 'thorough': 120000}
TIME = {'quick': 110, 'thorough': 1500}


@st.composite
def cases(draw, tier='quick'):
    dom = draw(gen.domains(1, 5 if tier == 'quick' else 7, 1, 4, cap=1024 if tier == 'quick' else 4096))
    attrs = dom['attrs']
    cliques = draw(gen.clique_sets(attrs, max_cliques=5, max_clique_size=3))
    witness = [draw(st.integers(0, s - 1)) for s in dom['shape']]
    factors = [{'attrs': cl, 'vals': {'seed': draw(st.integers(0, 2**31 - 1)), 'scale': draw(st.sampled_from([0.0, 1.0, 1.0, 3.0]))},
                'ninf': draw(st.sampled_from([0, 0, 0.3, 0.6]))} for cl in cliques]
    rows = draw(st.sampled_from([None, 1, 2, 7, 100, 10**4] + ([10**5, 10**6] if tier == 'thorough' else [])))
    total = draw(st.one_of(st.sampled_from([1, 7.9, 100, 1000.0, 12345.6, 10**6]), st.floats(0.3, 1.0))) if rows is not None else draw(st.sampled_from([1, 7.9, 100, 1000.0, 12345.6, 0.5, 999.9999999998, 2.99999975, 41 - 1e-9, 250.0000001]))
    return {'domain': dom, 'cliques': cliques, 'factors': factors, 'witness': witness, 'total': total,
            'order': draw(c01.order_mode(attrs)), 'np_seed': draw(st.integers(0, 2**31 - 1)),
            'rows': rows, 'rows2': draw(st.sampled_from([3, 250, 10**4])), 'method': draw(st.sampled_from(['round', 'round', 'sample'])),
            'cached': draw(st.booleans())}


def strategy(tier):
    return cases(tier)


def generation_plan(model):
    """Parent sets exactly as the generation order implies: pa(c) = already generated attributes that share a model
    clique with c."""
    order = list(model.elimination_order)[::-1]
    cl = [set(c) for c in model.cliques]
    used, plan = set(), []
    for c in order:
        rel = set().union(*[s for s in cl if c in s]) if any(c in s for s in cl) else set()
        plan.append((c, sorted(used & rel, key=order.index)))
        used.add(c)
    return order, plan


def bounds(model, sizes):
    """B(C) for every model clique, rows-independent (see DESIGN.md, C11)."""
    order, plan = generation_plan(model)
    pos = {c: i for i, c in enumerate(order)}
    pa = dict(plan)
    F = {}
    dom = lambda s: int(np.prod([sizes[a] for a in s])) if s else 1
    for c in order:
        if not pa[c]:
            F[c] = 1.0
        else:
            c2 = max(pa[c], key=lambda a: pos[a])
            fam2 = set(pa[c2]) | {c2}
            if not set(pa[c]) <= fam2:
                return None       # structure is not a valid perfect elimination order: no bound claimed
            F[c] = 1.0 + dom(fam2 - set(pa[c])) * F[c2]
    B = {}
    for S in model.cliques:
        c = max(S, key=lambda a: pos[a])
        fam = set(pa[c]) | {c}
        if not set(S) <= fam:
            return None
        B[S] = dom(fam - set(S)) * F[c]
    return B


def check_data(out, tag, df, model, attrs, shape, P, rows_expected, method, B):
    total = float(model.total)
    if list(df.columns) != list(attrs):
        return out.fail('mismatch:columns', 'columns %s, domain %s' % (list(df.columns), attrs))
    if df.shape[0] != rows_expected:
        return out.fail('mismatch:rows' + tag, '%d rows generated, %d expected' % (df.shape[0], rows_expected))
    vals = df.values
    n = vals.shape[0]
    if n == 0:
        return out
    if not np.issubdtype(vals.dtype, np.integer) and not np.all(vals == np.round(vals)):
        return out.fail('mismatch:values' + tag, 'non-integer values in synthetic data')
    vals = vals.astype(int)
    for j, s in enumerate(shape):
        if vals[:, j].min() < 0 or vals[:, j].max() >= s:
            return out.fail('mismatch:range' + tag, 'attribute %s has a value outside 0..%d' % (attrs[j], s - 1))
    prob = P / total
    T = np.zeros(shape)
    np.add.at(T, tuple(vals.T), 1)
    if np.any((T > 0) & (prob == 0)):
        i = np.argwhere((T > 0) & (prob == 0))[0]
        return out.fail('zero_cell:joint' + tag, 'record %s lies in a cell of probability 0' % (list(map(int, i)),))
    sharp = False
    for C in model.cliques:
        pc = oracles.marg(prob, attrs, C)
        tc = oracles.marg(T, attrs, C)
        if np.any((tc > 0) & (pc == 0)):
            return out.fail('zero_cell:clique' + tag, 'records in a zero-probability cell of clique %s' % (C,))
        err = np.abs(tc - n * pc)
        if method == 'round':
            if B is None:
                continue
            if float(err.max()) > B[C] + 1e-6 * n * float(pc.max()) + 1e-9:
                i = np.unravel_index(np.argmax(err), err.shape)
                return out.fail('rounding_error' + tag, 'clique %s cell %s: count %d, expected %.4f, error %.3f > bound %.1f (rows=%d)' % (
                    C, tuple(map(int, i)), tc[i], n * pc[i], err.max(), B[C], n))
            if np.any(B[C] < 0.5 * np.sqrt(n * pc * (1 - pc))):
                sharp = True
        else:
            bound = math.sqrt(math.log(2 * pc.size / 1e-12) / (2.0 * n))
            if float(err.max()) / n > bound:
                return out.fail('sampling_error' + tag, 'clique %s: max |freq - p| = %.4f > Hoeffding bound %.4f (rows=%d)' % (C, err.max() / n, bound, n))
    if method == 'sample' and prob.size <= 4096:
        bound = math.sqrt(math.log(2 * prob.size / 1e-12) / (2.0 * n))
        if float(np.abs(T / n - prob).max()) > bound:
            return out.fail('sampling_error:joint' + tag, 'joint: max |freq - p| = %.4f > bound %.4f (rows=%d)' % (np.abs(T / n - prob).max(), bound, n))
    if sharp: out.classes.append('bound_sharper_than_sampling_noise')
    return out


def run_case(case):
    mbi = import_mbi()
    out = Out()
    attrs, shape = list(case['domain']['attrs']), list(case['domain']['shape'])
    sizes = dict(zip(attrs, shape))
    domain = mbi.Domain(attrs, shape)
    total = case['total']
    factors = c01.build_factors(case)
    P, _ = oracles.joint(attrs, shape, factors, float(total))
    np.random.seed(case['np_seed'])
    model = mbi.GraphicalModel(domain, [tuple(c) for c in case['cliques']], total, elimination_order=c01.elim_arg(case['order']))
    model.potentials = c01.fold_potentials(mbi, domain, model, factors)
    if case['cached']:
        model.marginals = model.belief_propagation(model.potentials)
        out.classes.append('cached_marginals')
    B = bounds(model, sizes)
    method = case['method']
    rows = case['rows']
    exp1 = int(total) if rows is None else rows
    np.random.seed(case['np_seed'] + 1)
    d1 = model.synthetic_data(rows=rows, method=method) if rows is not None else model.synthetic_data(method=method)
    if tuple(d1.domain.attrs) != tuple(attrs) or tuple(d1.domain.shape) != tuple(shape):
        return out.fail('mismatch:domain', 'synthetic data domain %s' % d1.domain)
    check_data(out, ':first', d1.df, model, attrs, shape, P, exp1, method, B)
    if out.ok:
        # second generation on the same model object, different row count: same rows-independent bound
        rows2 = case['rows2'] if case['rows2'] != exp1 else case['rows2'] + 1
        d2 = model.synthetic_data(rows=rows2, method=method)
        check_data(out, ':second', d2.df, model, attrs, shape, P, rows2, method, B)
    if out.ok and case.get('refit', True):
        # history: the parameters of the same model object are replaced (as GraphicalModel.fit or a new round of
        # inference would do); the next generation must realise the NEW distribution
        case2 = dict(case, factors=[dict(f, vals=dict(f['vals'], seed=f['vals']['seed'] + 101)) for f in case['factors']])
        factors2 = c01.build_factors(case2)
        P2, _ = oracles.joint(attrs, shape, factors2, float(total))
        model.potentials = c01.fold_potentials(mbi, domain, model, factors2)
        if case['cached']:
            model.marginals = model.belief_propagation(model.potentials)
        d3 = model.synthetic_data(rows=case['rows2'], method=method)
        check_data(out, ':after_refit', d3.df, model, attrs, shape, P2, case['rows2'], method, B)
    order, plan = generation_plan(model)
    prob = P / float(total)
    cond = 0
    for c, pa in plan:
        if pa:
            pj = oracles.marg(prob, attrs, pa + [c])
            with np.errstate(divide='ignore', invalid='ignore'):
                cnd = pj / pj.sum(axis=-1, keepdims=True)
            if np.nanmax(cnd) - np.nanmin(cnd) > 1e-6:
                cond += 1
    out.nontrivial = cond >= 2 and (method == 'sample' or 'bound_sharper_than_sampling_noise' in out.classes) if out.ok else True
    out.classes += ['method:' + method, 'rows:%s' % rows]
    if np.any(P == 0): out.classes.append('zero_prob_cells')
    out.classes = sorted(set(out.classes))
    return out
