#!/venv/bin/python
"""Entry point:  run_check.py <ID> [--tier quick|thorough] [--replay FILE]

exit 0  property held on everything explored (KNOWN-FINDING lines possible)
exit 1  violation; a line 'VIOLATION property=<ID> replay=<path>' per root-cause bucket
exit 2  harness error (never a violation)
"""
import os, sys

def _reexec():
    env = dict(os.environ)
    changed = False
    for k, v in (('PYTHONHASHSEED', '0'), ('OMP_NUM_THREADS', '1'), ('OPENBLAS_NUM_THREADS', '1'),
                 ('MKL_NUM_THREADS', '1'), ('PYTHONWARNINGS', 'ignore'), ('PYTHONDONTWRITEBYTECODE', '1')):
        if env.get(k) != v:
            env[k] = v; changed = True
    if changed:
        os.execve(sys.executable, [sys.executable] + sys.argv, env)

def main():
    _reexec()
    here = os.path.dirname(os.path.abspath(__file__))
    sys.path.insert(0, here)
    import argparse
    ap = argparse.ArgumentParser()
    ap.add_argument('id')
    ap.add_argument('--tier', default=None, choices=['quick', 'thorough'])
    ap.add_argument('--replay', default=None)
    a = ap.parse_args()
    tier = a.tier or os.environ.get('VERIF_TIER') or 'quick'
    if tier not in ('quick', 'thorough'):
        tier = 'quick'
    from pbt import common
    try:
        rc = common.main(a.id.upper(), tier, a.replay)
    except common.HarnessError as e:
        print('HARNESS-ERROR: %s' % e, file=sys.stderr)
        rc = 2
    except Exception:
        import traceback
        traceback.print_exc()
        print('HARNESS-ERROR: unexpected exception in runner', file=sys.stderr)
        rc = 2
    sys.exit(rc)

if __name__ == '__main__':
    main()
