#!/bin/sh
# Offline setup: make sure hypothesis is importable next to the repository's packages.
set -e
cd "$(dirname "$0")"
if ! /venv/bin/python -c "import hypothesis" 2>/dev/null; then
  /venv/bin/pip install --no-index --find-links /opt/veriftools/wheels hypothesis
fi
/venv/bin/python -c "import hypothesis, numpy, scipy, pandas, networkx; print('setup ok: hypothesis', hypothesis.__version__)"
mkdir -p evidence replays .work
